// Package gen holds seeded generators. Manifest bytes are rendered by the harness' own
// serializer (never by regclient) so that every digest is that of bytes we chose.
package gen

import (
	"bytes"
	"encoding/base64"
	"encoding/json"
	"fmt"
	"math/rand"
	"os"
	"path/filepath"
	"sort"
	"strings"

	la "verif/layoutaudit"
	"verif/modelreg"
)

// KV / Obj: a JSON object with explicit key order.
type KV struct {
	K string
	V any
}
type Obj []KV

func (o Obj) MarshalJSON() ([]byte, error) {
	var b bytes.Buffer
	b.WriteByte('{')
	for i, kv := range o {
		if i > 0 {
			b.WriteByte(',')
		}
		k, _ := json.Marshal(kv.K)
		b.Write(k)
		b.WriteByte(':')
		v, err := json.Marshal(kv.V)
		if err != nil {
			return nil, err
		}
		b.Write(v)
	}
	b.WriteByte('}')
	return b.Bytes(), nil
}

// Node is one object of an image graph.
type Node struct {
	ID           int
	Kind         string // blob config layer image artifact index schema1
	MT           string
	Content      []byte
	Digest       string
	Refs         []int
	Subject      int // -1 none
	Platform     *la.Platform
	Annotations  map[string]string
	ArtifactType string
	URLs         []string // when set on a layer: foreign layer
	Inline       bool     // descriptors naming this node carry inline data
	External     bool     // content is not hosted by the source (foreign layer without local copy)
}

// IsManifest reports whether the node is a manifest.
func (n *Node) IsManifest() bool {
	switch n.Kind {
	case "image", "artifact", "index", "schema1":
		return true
	}
	return false
}

// Graph is a set of nodes with named roots.
type Graph struct {
	Alg   string
	Nodes []*Node
	Tags  map[string]int // tag -> node id
	Top   int
	Style int // rendering style bits
	rng   *rand.Rand
}

// New starts an empty graph.
func New(rng *rand.Rand, alg string) *Graph {
	return &Graph{Alg: alg, Tags: map[string]int{}, rng: rng, Style: rng.Intn(8), Top: -1}
}

func (g *Graph) add(n *Node) *Node {
	n.ID = len(g.Nodes)
	if n.Subject == 0 && n.Kind != "" {
		// callers set Subject explicitly; zero value means "none" unless flagged
	}
	n.Digest = la.Digest(g.Alg, n.Content)
	g.Nodes = append(g.Nodes, n)
	return n
}

// Blob adds an opaque blob of given size (content derived from the PRNG).
func (g *Graph) Blob(kind, mt string, size int) *Node {
	b := make([]byte, size)
	g.rng.Read(b)
	return g.add(&Node{Kind: kind, MT: mt, Content: b, Subject: -1})
}

// BlobBytes adds a blob with the given content.
func (g *Graph) BlobBytes(kind, mt string, b []byte) *Node {
	return g.add(&Node{Kind: kind, MT: mt, Content: b, Subject: -1})
}

// Desc renders the descriptor naming node n.
func (g *Graph) Desc(n *Node) Obj {
	o := Obj{{"mediaType", n.MT}, {"digest", n.Digest}, {"size", len(n.Content)}}
	if len(n.URLs) > 0 {
		o = append(o, KV{"urls", n.URLs})
	}
	if n.Inline {
		o = append(o, KV{"data", base64.StdEncoding.EncodeToString(n.Content)})
	}
	if n.Platform != nil {
		o = append(o, KV{"platform", n.Platform})
	}
	if n.IsManifest() && n.ArtifactType != "" {
		o = append(o, KV{"artifactType", n.ArtifactType})
	}
	if g.Style&1 == 1 && len(o) > 3 {
		// move size first: key order must not matter
		o[0], o[2] = o[2], o[0]
	}
	return o
}

func (g *Graph) render(o Obj) []byte {
	var b []byte
	switch g.Style >> 1 {
	case 1:
		b, _ = json.MarshalIndent(o, "", "  ")
	case 2:
		b, _ = json.MarshalIndent(o, "", "\t")
		b = append(b, '\n')
	case 3:
		b, _ = json.Marshal(o)
		b = append(b, '\n')
	default:
		b, _ = json.Marshal(o)
	}
	return b
}

// Family selects media types: "oci" or "docker".
func mts(family string) (man, idx, cfg, layer string) {
	if family == "docker" {
		return la.MTD2Manifest, la.MTD2List, la.MTD2Config, la.MTD2LayerGz
	}
	return la.MTOCIManifest, la.MTOCIIndex, la.MTOCIConfig, la.MTOCILayerGz
}

// ImageOpts tune Image.
type ImageOpts struct {
	Family       string
	Platform     *la.Platform
	Subject      *Node
	ArtifactType string
	Annotations  map[string]string
	NoMediaType  bool // omit the mediaType field (legal for OCI)
}

// Config adds a plausible image config blob.
func (g *Graph) Config(family string, p *la.Platform, nLayers int) *Node {
	_, _, cfgMT, _ := mts(family)
	if p == nil {
		p = &la.Platform{OS: "linux", Architecture: "amd64"}
	}
	diff := []string{}
	hist := []Obj{}
	for i := 0; i < nLayers; i++ {
		r := make([]byte, 8)
		g.rng.Read(r)
		diff = append(diff, la.Digest("sha256", r))
		hist = append(hist, Obj{{"created_by", fmt.Sprintf("step %d %x", i, r[:2])}})
	}
	o := Obj{{"architecture", p.Architecture}, {"os", p.OS}, {"config", Obj{{"Env", []string{fmt.Sprintf("SEED=%d", g.rng.Int63())}}}},
		{"rootfs", Obj{{"type", "layers"}, {"diff_ids", diff}}}, {"history", hist}}
	if p.Variant != "" {
		o = append(o, KV{"variant", p.Variant})
	}
	b, _ := json.Marshal(o)
	return g.add(&Node{Kind: "config", MT: cfgMT, Content: b, Subject: -1})
}

// Image adds an image manifest over cfg and layers.
func (g *Graph) Image(cfg *Node, layers []*Node, o ImageOpts) *Node {
	manMT, _, _, _ := mts(o.Family)
	obj := Obj{{"schemaVersion", 2}}
	if !o.NoMediaType || o.Family == "docker" {
		obj = append(obj, KV{"mediaType", manMT})
	}
	if o.ArtifactType != "" {
		obj = append(obj, KV{"artifactType", o.ArtifactType})
	}
	obj = append(obj, KV{"config", g.Desc(cfg)})
	ls := []Obj{}
	refs := []int{cfg.ID}
	for _, l := range layers {
		ls = append(ls, g.Desc(l))
		refs = append(refs, l.ID)
	}
	obj = append(obj, KV{"layers", ls})
	sub := -1
	if o.Subject != nil {
		obj = append(obj, KV{"subject", Obj{{"mediaType", o.Subject.MT}, {"digest", o.Subject.Digest}, {"size", len(o.Subject.Content)}}})
		sub = o.Subject.ID
	}
	if len(o.Annotations) > 0 {
		obj = append(obj, KV{"annotations", o.Annotations})
	}
	if g.Style&1 == 1 {
		obj = append(obj, KV{"x-unknown-field", []int{1, 2}})
	}
	kind := "image"
	if o.ArtifactType != "" || o.Subject != nil {
		kind = "artifact"
	}
	return g.add(&Node{Kind: kind, MT: manMT, Content: g.render(obj), Refs: refs, Subject: sub, Platform: o.Platform,
		Annotations: o.Annotations, ArtifactType: o.ArtifactType})
}

// Index adds an index / manifest list over entries (manifests or blobs).
func (g *Graph) Index(family string, entries []*Node, subject *Node, annotations map[string]string) *Node {
	_, idxMT, _, _ := mts(family)
	obj := Obj{{"schemaVersion", 2}, {"mediaType", idxMT}}
	es := []Obj{}
	refs := []int{}
	for _, e := range entries {
		es = append(es, g.Desc(e))
		refs = append(refs, e.ID)
	}
	obj = append(obj, KV{"manifests", es})
	sub := -1
	if subject != nil {
		obj = append(obj, KV{"subject", Obj{{"mediaType", subject.MT}, {"digest", subject.Digest}, {"size", len(subject.Content)}}})
		sub = subject.ID
	}
	if len(annotations) > 0 {
		obj = append(obj, KV{"annotations", annotations})
	}
	return g.add(&Node{Kind: "index", MT: idxMT, Content: g.render(obj), Refs: refs, Subject: sub, Annotations: annotations})
}

// Schema1 adds an unsigned Docker schema1 manifest over layers.
func (g *Graph) Schema1(name, tag string, layers []*Node) *Node {
	fs := []Obj{}
	hist := []Obj{}
	refs := []int{}
	for i, l := range layers {
		fs = append(fs, Obj{{"blobSum", l.Digest}})
		hist = append(hist, Obj{{"v1Compatibility", fmt.Sprintf(`{"id":"%064x","created":"2020-01-01T00:00:00Z"}`, i+1)}})
		refs = append(refs, l.ID)
	}
	obj := Obj{{"schemaVersion", 1}, {"name", name}, {"tag", tag}, {"architecture", "amd64"}, {"fsLayers", fs}, {"history", hist}}
	return g.add(&Node{Kind: "schema1", MT: la.MTD1, Content: g.render(obj), Refs: refs, Subject: -1})
}

// Closure returns the ids reachable from root through Refs (root first, no duplicates).
func (g *Graph) Closure(root int) []int {
	seen := map[int]bool{}
	var out []int
	var walk func(int)
	walk = func(i int) {
		if seen[i] {
			return
		}
		seen[i] = true
		out = append(out, i)
		for _, c := range g.Nodes[i].Refs {
			walk(c)
		}
	}
	walk(root)
	return out
}

// ReferrersOf lists nodes whose subject is id.
func (g *Graph) ReferrersOf(id int) []int {
	var out []int
	for _, n := range g.Nodes {
		if n.Subject == id {
			out = append(out, n.ID)
		}
	}
	return out
}

// ToHost materialises nodes (all, or those selected by keep) into a model repository.
func (g *Graph) ToHost(h *modelreg.Host, repo string, keep func(n *Node) bool, withTags bool) {
	for _, n := range g.Nodes {
		if keep != nil && !keep(n) {
			continue
		}
		if n.External {
			continue
		}
		if n.IsManifest() {
			h.PutManifest(repo, g.Alg, n.MT, n.Content, "")
		} else {
			h.PutBlob(repo, g.Alg, n.Content)
		}
	}
	h.W.Lock()
	h.Repo(repo)
	h.W.Unlock()
	if withTags {
		for t, id := range g.Tags {
			if keep == nil || keep(g.Nodes[id]) {
				h.SetTag(repo, t, g.Nodes[id].Digest)
			}
		}
	}
}

// ToLayout writes nodes into an OCI layout directory with our own writer. Tagged nodes
// get an index entry with ref.name; extra lists further digests to list untagged.
func (g *Graph) ToLayout(dir string, keep func(n *Node) bool, withTags bool) error {
	for _, n := range g.Nodes {
		if keep != nil && !keep(n) {
			continue
		}
		if n.External {
			continue
		}
		if err := WriteLayoutBlob(dir, n.Digest, n.Content); err != nil {
			return err
		}
	}
	var entries []Obj
	if withTags {
		tags := []string{}
		for t := range g.Tags {
			tags = append(tags, t)
		}
		sort.Strings(tags)
		for _, t := range tags {
			n := g.Nodes[g.Tags[t]]
			if keep != nil && !keep(n) {
				continue
			}
			entries = append(entries, Obj{{"mediaType", n.MT}, {"digest", n.Digest}, {"size", len(n.Content)},
				{"annotations", map[string]string{la.AnnotRefName: t}}})
		}
	}
	return WriteLayoutIndex(dir, entries)
}

// WriteLayoutBlob stores content under blobs/<alg>/<hex>.
func WriteLayoutBlob(dir, digest string, b []byte) error {
	i := strings.IndexByte(digest, ':')
	p := filepath.Join(dir, "blobs", digest[:i])
	if err := os.MkdirAll(p, 0o755); err != nil {
		return err
	}
	return os.WriteFile(filepath.Join(p, digest[i+1:]), b, 0o644)
}

// WriteLayoutIndex writes oci-layout and index.json.
func WriteLayoutIndex(dir string, entries []Obj) error {
	if err := os.MkdirAll(filepath.Join(dir, "blobs", "sha256"), 0o755); err != nil {
		return err
	}
	if err := os.WriteFile(filepath.Join(dir, "oci-layout"), []byte(`{"imageLayoutVersion":"1.0.0"}`), 0o644); err != nil {
		return err
	}
	if entries == nil {
		entries = []Obj{}
	}
	b, _ := json.Marshal(Obj{{"schemaVersion", 2}, {"mediaType", la.MTOCIIndex}, {"manifests", entries}})
	return os.WriteFile(filepath.Join(dir, "index.json"), b, 0o644)
}

// Store exposes the graph itself as a layoutaudit.Store (the ground truth of the source).
type Store struct{ G *Graph }

func (s Store) find(d string) *Node {
	for _, n := range s.G.Nodes {
		if n.Digest == d && !n.External {
			return n
		}
	}
	return nil
}
func (s Store) Manifest(d string) ([]byte, string, bool) {
	n := s.find(d)
	if n == nil || !n.IsManifest() {
		return nil, "", false
	}
	return n.Content, n.MT, true
}
func (s Store) Blob(d string) ([]byte, bool) {
	n := s.find(d)
	if n == nil {
		return nil, false
	}
	return n.Content, true
}
