package gen

import (
	"fmt"
	"math/rand"

	la "verif/layoutaudit"
)

// Shape describes what a random graph should contain.
type Shape struct {
	Family      string // oci | docker | mixed
	Kind        string // image | index | nested | schema1 | artifact | artifact-index
	Platforms   int    // entries of the index
	Layers      int    // layers per image
	Share       bool   // share layers between platforms
	DupLayer    bool   // the same layer listed twice in one image
	SharedChild bool   // (nested) the top index also lists, directly, an image of its first nested index
	DupTimes    int    // further repetitions of that layer (many goroutines ask for one blob at the same instant)
	EmptyBlob   bool   // one zero-length layer
	Inline      bool   // inline data on some descriptor
	BlobEntry   bool   // index carries a blob-typed entry
	Referrers   int    // referrers to the top manifest
	ChildRefs   int    // referrers attached to manifests below the top (platform images, nested indexes)
	ChildDTags  int    // digest tags attached to manifests below the top
	RefOfRef    bool   // a referrer of the first referrer
	DTagAlias   bool   // a further digest tag that names the same manifest as the first one
	DigestTags  int    // sha256-<hex>.suffix style tags pointing to extra images
	Foreign     bool   // a foreign layer with URLs not hosted by the source
	ForeignURL  string `json:"-"` // base URL of a host that really serves foreign layers (default: an unreachable address)
	MaxBlob     int
}

// Key is a short shape-class string for distinct counting.
func (s Shape) Key() string {
	return fmt.Sprintf("%s/%s/p%d/l%d/sh%t/du%t/em%t/in%t/be%t/r%d/rr%t/dt%d/fo%t/cr%d/cd%d", s.Family, s.Kind, s.Platforms, s.Layers,
		s.Share, s.DupLayer, s.EmptyBlob, s.Inline, s.BlobEntry, s.Referrers, s.RefOfRef, s.DigestTags, s.Foreign, s.ChildRefs, s.ChildDTags) + map[bool]string{true: "/shared-child", false: ""}[s.SharedChild]
}

// RandomShape draws a shape.
func RandomShape(rng *rand.Rand) Shape {
	kinds := []string{"image", "index", "index", "nested", "schema1", "artifact", "artifact-index"}
	fam := []string{"oci", "docker", "oci", "mixed"}
	s := Shape{Family: fam[rng.Intn(len(fam))], Kind: kinds[rng.Intn(len(kinds))], Platforms: 1 + rng.Intn(4), Layers: 1 + rng.Intn(3),
		Share: rng.Intn(2) == 0, DupLayer: rng.Intn(6) == 0, EmptyBlob: rng.Intn(6) == 0, Inline: rng.Intn(5) == 0,
		BlobEntry: rng.Intn(6) == 0, MaxBlob: 64 + rng.Intn(2000)}
	if rng.Intn(3) == 0 {
		s.Referrers = 1 + rng.Intn(3)
		s.RefOfRef = rng.Intn(3) == 0
		if rng.Intn(2) == 0 {
			s.ChildRefs = 1 + rng.Intn(2)
		}
	}
	if rng.Intn(5) == 0 {
		s.DigestTags = 1 + rng.Intn(2)
		if rng.Intn(2) == 0 {
			s.ChildDTags = 1
		}
	}
	if s.Kind == "schema1" {
		s.Family = "docker"
	}
	if s.Kind == "nested" && rng.Intn(2) == 0 {
		s.SharedChild = true
	}
	return s
}

var platforms = []la.Platform{
	{OS: "linux", Architecture: "amd64"}, {OS: "linux", Architecture: "arm64"}, {OS: "linux", Architecture: "arm", Variant: "v7"},
	{OS: "linux", Architecture: "ppc64le"}, {OS: "windows", Architecture: "amd64", OSVersion: "10.0.17763.1"}, {OS: "linux", Architecture: "s390x"},
}

// Random builds a graph of the given shape; the top node is tagged topTag.
func Random(rng *rand.Rand, alg string, s Shape, topTag string) *Graph {
	g := New(rng, alg)
	var pool []*Node // shared layers
	fam := func(i int) string {
		if s.Family == "mixed" {
			if i%2 == 0 {
				return "oci"
			}
			return "docker"
		}
		return s.Family
	}
	layer := func(f string) *Node {
		_, _, _, lmt := mts(f)
		if s.Share && len(pool) > 0 && rng.Intn(2) == 0 {
			return pool[rng.Intn(len(pool))]
		}
		n := g.Blob("layer", lmt, 1+rng.Intn(s.MaxBlob))
		pool = append(pool, n)
		return n
	}
	image := func(i int, p *la.Platform, subject *Node, at string, ann map[string]string) *Node {
		f := fam(i)
		var ls []*Node
		for j := 0; j < s.Layers; j++ {
			ls = append(ls, layer(f))
		}
		if s.DupLayer && len(ls) > 0 {
			ls = append(ls, ls[0])
			for k := 0; k < s.DupTimes; k++ {
				ls = append(ls, ls[0])
			}
		}
		if s.EmptyBlob && i == 0 {
			_, _, _, lmt := mts(f)
			ls = append(ls, g.BlobBytes("layer", lmt, []byte{}))
		}
		if s.Foreign && i == 0 {
			fl := g.Blob("layer", la.MTD2Foreign, 40)
			base := "http://127.0.0.1:1/foreign"
			if s.ForeignURL != "" {
				base = s.ForeignURL
			}
			fl.URLs = []string{base + "/" + fl.Digest}
			fl.External = true
			ls = append(ls, fl)
		}
		cfg := g.Config(f, p, len(ls))
		if s.Inline && i == 0 {
			cfg.Inline = true
		}
		return g.Image(cfg, ls, ImageOpts{Family: f, Platform: p, Subject: subject, ArtifactType: at, Annotations: ann,
			NoMediaType: f == "oci" && rng.Intn(8) == 0})
	}
	index := func(base int, f string, n int) *Node {
		var es []*Node
		for i := 0; i < n; i++ {
			p := platforms[(base+i)%len(platforms)]
			es = append(es, image(base+i, &p, nil, "", nil))
		}
		if s.BlobEntry {
			b := g.Blob("blob", "application/vnd.example.sbom+json", 30+rng.Intn(100))
			es = append(es, b)
		}
		if f == "mixed" {
			f = "oci"
		}
		return g.Index(f, es, nil, nil)
	}
	var top *Node
	switch s.Kind {
	case "image":
		top = image(0, nil, nil, "", nil)
	case "index":
		top = index(0, s.Family, s.Platforms)
	case "nested":
		a := index(0, s.Family, 1+s.Platforms/2)
		b := index(3, s.Family, 1+s.Platforms/2)
		f := s.Family
		if f == "mixed" {
			f = "oci"
		}
		es := []*Node{a, b}
		if s.SharedChild {
			// a manifest that sits under two parents of one graph: listed by the nested index AND directly by the top
			for _, cid := range a.Refs {
				if g.Nodes[cid].IsManifest() {
					es = []*Node{g.Nodes[cid], a, b}
					break
				}
			}
		}
		top = g.Index(f, es, nil, map[string]string{"nested": "true"})
	case "schema1":
		var ls []*Node
		for j := 0; j < s.Layers; j++ {
			ls = append(ls, g.Blob("layer", la.MTD2LayerGz, 1+rng.Intn(s.MaxBlob)))
		}
		top = g.Schema1("library/x", topTag, ls)
	case "artifact":
		cfg := g.BlobBytes("config", la.MTOCIEmpty, []byte("{}"))
		ls := []*Node{g.Blob("layer", "application/vnd.example.data", 1+rng.Intn(s.MaxBlob))}
		if s.Share {
			// the OCI guidance for artifacts without content: config and layer are both the empty descriptor
			ls = append([]*Node{cfg}, ls...)
		}
		top = g.Image(cfg, ls, ImageOpts{Family: "oci", ArtifactType: "application/vnd.example.thing"})
	case "artifact-index":
		var es []*Node
		cfg := g.BlobBytes("config", la.MTOCIEmpty, []byte("{}"))
		for i := 0; i < 1+s.Platforms/2; i++ {
			l := g.Blob("layer", "application/vnd.example.data", 1+rng.Intn(s.MaxBlob))
			es = append(es, g.Image(cfg, []*Node{l}, ImageOpts{Family: "oci", ArtifactType: "application/vnd.example.thing", Annotations: map[string]string{"n": fmt.Sprint(i)}}))
		}
		p := platforms[0]
		es = append(es, image(1, &p, nil, "", nil))
		top = g.Index("oci", es, nil, nil)
	}
	g.Top = top.ID
	if topTag != "" {
		g.Tags[topTag] = top.ID
	}
	var firstRef *Node
	for i := 0; i < s.Referrers; i++ {
		at := []string{"application/vnd.example.sig", "application/vnd.example.sbom"}[i%2]
		cfg := g.BlobBytes("config", la.MTOCIEmpty, []byte("{}"))
		l := g.Blob("layer", "application/vnd.example.payload", 10+rng.Intn(200))
		r := g.Image(cfg, []*Node{l}, ImageOpts{Family: "oci", Subject: top, ArtifactType: at,
			Annotations: map[string]string{"org.example.n": fmt.Sprint(i), "org.example.kind": []string{"a", "b"}[i%2]}})
		if firstRef == nil {
			firstRef = r
		}
	}
	if s.RefOfRef && firstRef != nil {
		cfg := g.BlobBytes("config", la.MTOCIEmpty, []byte("{}"))
		l := g.Blob("layer", "application/vnd.example.payload", 10+rng.Intn(200))
		g.Image(cfg, []*Node{l}, ImageOpts{Family: "oci", Subject: firstRef, ArtifactType: "application/vnd.example.sig"})
	}
	// referrers / digest tags of manifests below the top
	var below []*Node
	for _, id := range g.Closure(top.ID) {
		if n := g.Nodes[id]; n.IsManifest() && id != top.ID && n.Kind != "schema1" {
			below = append(below, n)
		}
	}
	for i := 0; i < s.ChildRefs && len(below) > 0; i++ {
		subj := below[rng.Intn(len(below))]
		cfg := g.BlobBytes("config", la.MTOCIEmpty, []byte("{}"))
		l := g.Blob("layer", "application/vnd.example.payload", 10+rng.Intn(200))
		g.Image(cfg, []*Node{l}, ImageOpts{Family: "oci", Subject: subj, ArtifactType: []string{"application/vnd.example.sig", "application/vnd.example.sbom"}[i%2],
			Annotations: map[string]string{"org.example.child": fmt.Sprint(i)}})
	}
	for i := 0; i < s.ChildDTags && len(below) > 0; i++ {
		subj := below[rng.Intn(len(below))]
		p := platforms[0]
		im := image(20+i, &p, nil, "", nil)
		alg, enc, _ := la.SplitDigest(subj.Digest)
		g.Tags[fmt.Sprintf("%s-%s.%s", alg, enc, "sig")] = im.ID
	}
	for i := 0; i < s.DigestTags; i++ {
		p := platforms[0]
		im := image(10+i, &p, nil, "", nil)
		alg, enc, _ := la.SplitDigest(top.Digest)
		g.Tags[fmt.Sprintf("%s-%s.%s", alg, enc, []string{"sig", "att"}[i%2])] = im.ID
		if s.DTagAlias && i == 0 {
			// two digest tags that name one and the same manifest
			g.Tags[fmt.Sprintf("%s-%s.%s", alg, enc, "copy")] = im.ID
		}
	}
	return g
}
