// Package ev writes evidence files, prints VIOLATION / KNOWN-FINDING lines and keeps
// the three-valued verdict of a check run. It imports nothing from regclient.
package ev

import (
	"crypto/sha256"
	"encoding/hex"
	"encoding/json"
	"fmt"
	"math/rand"
	"os"
	"path"
	"path/filepath"
	"sort"
	"strconv"
	"sync"
	"time"
)

// Root is the verification directory.
func Root() string {
	if r := os.Getenv("VERIF_ROOT"); r != "" {
		return r
	}
	return "/verif"
}

// Seed returns VERIF_SEED (default 1).
func Seed() int64 {
	if s := os.Getenv("VERIF_SEED"); s != "" {
		if v, err := strconv.ParseInt(s, 10, 64); err == nil {
			return v
		}
	}
	return 1
}

// Tier returns "quick" or "thorough".
func Tier() string {
	if os.Getenv("VERIF_TIER") == "thorough" {
		return "thorough"
	}
	return "quick"
}

// Scale returns q for the quick tier and t for the thorough tier.
func Scale(q, t int) int {
	if Tier() == "thorough" {
		return t
	}
	return q
}

// Rand returns a PRNG derived from the seed and a stream name so that independent
// parts of a check do not perturb one another.
func Rand(stream string) *rand.Rand {
	h := sha256.Sum256([]byte(fmt.Sprintf("%d/%s", Seed(), stream)))
	var s int64
	for i := 0; i < 8; i++ {
		s = s<<8 | int64(h[i])
	}
	return rand.New(rand.NewSource(s))
}

type finding struct {
	Property    string `json:"property"`
	Fingerprint string `json:"fingerprint"`
	Status      string `json:"status"`
	Commit      string `json:"commit,omitempty"`
	What        string `json:"what"`
}

// Run is the state of one check run.
type Run struct {
	ID    string
	Level string

	mu          sync.Mutex
	start       time.Time
	evals       int64
	distinct    map[string]struct{}
	samples     []any
	sampleMax   int
	counters    map[string]int64
	extra       map[string]any
	sets        map[string]map[string]struct{}
	assumptions []string
	rule        string
	violations  int
	known       map[string]int
	seenViol    map[string]struct{}
	incon       []string
	findings    []finding
	exhaustive  bool
}

// Start begins a run for property id at the given evidence level.
func Start(id, level string) *Run {
	r := &Run{ID: id, Level: level, start: time.Now(), distinct: map[string]struct{}{},
		sampleMax: 6, counters: map[string]int64{}, extra: map[string]any{}, sets: map[string]map[string]struct{}{},
		known: map[string]int{}, seenViol: map[string]struct{}{}}
	b, err := os.ReadFile(filepath.Join(Root(), "known_findings.json"))
	if err == nil {
		_ = json.Unmarshal(b, &r.findings)
	}
	return r
}

// Rule records how cases are generated and what makes one non-trivial / distinct.
func (r *Run) Rule(s string) { r.mu.Lock(); r.rule = s; r.mu.Unlock() }

// Assume appends to the list of assumptions.
func (r *Run) Assume(s ...string) { r.mu.Lock(); r.assumptions = append(r.assumptions, s...); r.mu.Unlock() }

// Exhaustive marks that a finite space was enumerated completely.
func (r *Run) Exhaustive(b bool) { r.mu.Lock(); r.exhaustive = b; r.mu.Unlock() }

// Eval counts n evaluated cases.
func (r *Run) Eval(n int) { r.mu.Lock(); r.evals += int64(n); r.mu.Unlock() }

// Distinct records the shape key of a non-trivial case.
func (r *Run) Distinct(key string) {
	r.mu.Lock()
	if len(key) > 80 {
		h := sha256.Sum256([]byte(key))
		key = hex.EncodeToString(h[:12])
	}
	r.distinct[key] = struct{}{}
	r.mu.Unlock()
}

// Sample keeps up to a few written-out cases.
func (r *Run) Sample(v any) {
	r.mu.Lock()
	if len(r.samples) < r.sampleMax {
		r.samples = append(r.samples, v)
	}
	r.mu.Unlock()
}

// Count adds n to a named counter in coverage.
func (r *Run) Count(name string, n int) { r.mu.Lock(); r.counters[name] += int64(n); r.mu.Unlock() }

// Get reads a counter.
func (r *Run) Get(name string) int64 { r.mu.Lock(); defer r.mu.Unlock(); return r.counters[name] }

// SetAdd adds a member to a named set; its size is reported as coverage[name].
func (r *Run) SetAdd(name, member string) {
	r.mu.Lock()
	s := r.sets[name]
	if s == nil {
		s = map[string]struct{}{}
		r.sets[name] = s
	}
	if len(member) > 64 {
		h := sha256.Sum256([]byte(member))
		member = hex.EncodeToString(h[:12])
	}
	s[member] = struct{}{}
	r.mu.Unlock()
}

// SetLen returns the size of a named set.
func (r *Run) SetLen(name string) int { r.mu.Lock(); defer r.mu.Unlock(); return len(r.sets[name]) }

// Put stores an arbitrary extra coverage value.
func (r *Run) Put(name string, v any) { r.mu.Lock(); r.extra[name] = v; r.mu.Unlock() }

// Violation reports one observed violation. fingerprint identifies the failing input
// class / call site; if known_findings.json lists it as "known" a KNOWN-FINDING line is
// printed instead and the exit status is unaffected. Returns true if it was a new violation.
func (r *Run) Violation(fingerprint, what string, witness any) bool {
	r.mu.Lock()
	defer r.mu.Unlock()
	for _, f := range r.findings {
		if f.Property != r.ID || f.Status != "known" {
			continue
		}
		ok, _ := path.Match(f.Fingerprint, fingerprint)
		// a pattern ending in '*' also matches as a prefix (fingerprints may contain '/' after that point)
		if n := len(f.Fingerprint); !ok && n > 1 && f.Fingerprint[n-1] == '*' && len(fingerprint) >= n-1 && fingerprint[:n-1] == f.Fingerprint[:n-1] {
			ok = true
		}
		if ok || f.Fingerprint == fingerprint {
			if r.known[f.Fingerprint] == 0 {
				fmt.Printf("KNOWN-FINDING: property=%s %s [%s]\n", r.ID, f.What, f.Fingerprint)
			}
			r.known[f.Fingerprint]++
			return false
		}
	}
	r.violations++
	if _, dup := r.seenViol[fingerprint]; dup {
		return true
	}
	r.seenViol[fingerprint] = struct{}{}
	dir := filepath.Join(Root(), "replays", r.ID)
	_ = os.MkdirAll(dir, 0o755)
	h := sha256.Sum256([]byte(fingerprint))
	p := filepath.Join(dir, hex.EncodeToString(h[:8])+".json")
	b, _ := json.MarshalIndent(map[string]any{"property": r.ID, "fingerprint": fingerprint, "what": what,
		"seed": Seed(), "tier": Tier(), "witness": witness}, "", " ")
	_ = os.WriteFile(p, b, 0o644)
	if len(r.seenViol) <= 25 {
		fmt.Printf("VIOLATION property=%s replay=%s\n", r.ID, p)
		fmt.Printf("  detail: [%s] %s\n", fingerprint, what)
	}
	return true
}

// Inconclusive records that (part of) the run could not decide.
func (r *Run) Inconclusive(reason string) {
	r.mu.Lock()
	r.incon = append(r.incon, reason)
	r.mu.Unlock()
	fmt.Printf("INCONCLUSIVE property=%s reason=%s\n", r.ID, reason)
}

// Violations returns the number of new violations so far.
func (r *Run) Violations() int { r.mu.Lock(); defer r.mu.Unlock(); return r.violations }

// Finish writes the evidence file and returns the process exit code:
// 0 held, 1 violated, 3 inconclusive.
func (r *Run) Finish() int {
	r.mu.Lock()
	defer r.mu.Unlock()
	cov := map[string]any{}
	for k, v := range r.extra {
		cov[k] = v
	}
	for k, v := range r.counters {
		cov[k] = v
	}
	for k, s := range r.sets {
		cov[k] = len(s)
	}
	cov["evaluations"] = r.evals
	cov["distinct_nontrivial"] = len(r.distinct)
	cov["rule"] = r.rule
	if len(r.samples) == 0 {
		r.samples = []any{}
	}
	cov["samples"] = r.samples
	if r.exhaustive {
		cov["exhaustive"] = true
	}
	kf := []string{}
	for k, n := range r.known {
		kf = append(kf, fmt.Sprintf("%s x%d", k, n))
	}
	sort.Strings(kf)
	cov["known_findings_observed"] = kf
	if len(r.incon) > 0 {
		cov["inconclusive"] = r.incon
	}
	out := map[string]any{
		"property_id": r.ID, "tier": Tier(), "seed": Seed(), "level": r.Level, "coverage": cov,
		"assumptions": append([]string{}, r.assumptions...), "wall_s": time.Since(r.start).Seconds(),
		"violations": r.violations,
	}
	b, _ := json.MarshalIndent(out, "", " ")
	_ = os.MkdirAll(filepath.Join(Root(), "evidence"), 0o755)
	if err := os.WriteFile(filepath.Join(Root(), "evidence", r.ID+".json"), append(b, '\n'), 0o644); err != nil {
		fmt.Printf("INCONCLUSIVE property=%s reason=cannot write evidence: %v\n", r.ID, err)
		return 3
	}
	fmt.Printf("SUMMARY property=%s tier=%s seed=%d evaluations=%d distinct_nontrivial=%d violations=%d known=%d wall=%.1fs\n",
		r.ID, Tier(), Seed(), r.evals, len(r.distinct), r.violations, len(r.known), time.Since(r.start).Seconds())
	if r.violations > 0 {
		return 1
	}
	if len(r.incon) > 0 {
		return 3
	}
	return 0
}

// External is the result file format written by overlay tests that cannot import this package.
type External struct {
	Evaluations int64            `json:"evaluations"`
	Distinct    []string         `json:"distinct"`
	Samples     []any            `json:"samples"`
	Counters    map[string]int64 `json:"counters"`
	Violations  []struct {
		Fingerprint string `json:"fingerprint"`
		What        string `json:"what"`
		Witness     any    `json:"witness"`
	} `json:"violations"`
	Inconclusive []string `json:"inconclusive"`
}

// Merge folds an External result file into the run. A missing / unreadable file is inconclusive.
func (r *Run) Merge(path, prefix string) *External {
	b, err := os.ReadFile(path)
	if err != nil {
		r.Inconclusive("result file of " + prefix + " missing: " + err.Error())
		return nil
	}
	var x External
	if err := json.Unmarshal(b, &x); err != nil {
		r.Inconclusive("result file of " + prefix + " unreadable: " + err.Error())
		return nil
	}
	r.Eval(int(x.Evaluations))
	for _, d := range x.Distinct {
		r.Distinct(prefix + "/" + d)
	}
	for _, s := range x.Samples {
		r.Sample(s)
	}
	for k, v := range x.Counters {
		r.Count(k, int(v))
	}
	for _, v := range x.Violations {
		r.Violation(prefix+"/"+v.Fingerprint, v.What, v.Witness)
	}
	for _, i := range x.Inconclusive {
		r.Inconclusive(prefix + ": " + i)
	}
	return &x
}

// CoverCount reads a Go cover profile and returns the execution count of the block of
// file (suffix match) that contains the given line; found=false if no block matches.
func CoverCount(profile, fileSuffix string, line int) (count int64, found bool) {
	b, err := os.ReadFile(profile)
	if err != nil {
		return 0, false
	}
	best := -1
	for _, l := range splitLines(string(b)) {
		// name.go:line.col,line.col numstmt count
		var file string
		var l0, c0, l1, c1, ns int
		var cnt int64
		i := lastIndex(l, ':')
		if i < 0 {
			continue
		}
		file = l[:i]
		if _, err := fmt.Sscanf(l[i+1:], "%d.%d,%d.%d %d %d", &l0, &c0, &l1, &c1, &ns, &cnt); err != nil {
			continue
		}
		if !hasSuffix(file, fileSuffix) || line < l0 || line > l1 {
			continue
		}
		// choose the smallest enclosing block
		if span := l1 - l0; best < 0 || span < best {
			best = span
			count = cnt
			found = true
		}
	}
	return count, found
}

func splitLines(s string) []string {
	var out []string
	cur := ""
	for _, c := range s {
		if c == '\n' {
			out = append(out, cur)
			cur = ""
		} else {
			cur += string(c)
		}
	}
	if cur != "" {
		out = append(out, cur)
	}
	return out
}
func lastIndex(s string, c byte) int {
	for i := len(s) - 1; i >= 0; i-- {
		if s[i] == c {
			return i
		}
	}
	return -1
}
func hasSuffix(s, suf string) bool { return len(s) >= len(suf) && s[len(s)-len(suf):] == suf }

// FindLine returns the 1-based number of the first line of file containing needle (0 if none).
func FindLine(file, needle string) int {
	b, err := os.ReadFile(file)
	if err != nil {
		return 0
	}
	for i, l := range splitLines(string(b)) {
		if len(needle) > 0 && contains(l, needle) {
			return i + 1
		}
	}
	return 0
}
func contains(s, sub string) bool {
	for i := 0; i+len(sub) <= len(s); i++ {
		if s[i:i+len(sub)] == sub {
			return true
		}
	}
	return false
}

// RaceReports returns the race detector reports written so far by this process or by
// child processes into the GORACE log_path prefix (dir/prefix.*).
func RaceReports(globPrefix string) []string {
	matches, _ := filepath.Glob(globPrefix + ".*")
	var out []string
	for _, m := range matches {
		b, err := os.ReadFile(m)
		if err != nil {
			continue
		}
		cur := ""
		in := false
		for _, l := range splitLines(string(b)) {
			if contains(l, "WARNING: DATA RACE") {
				in = true
				cur = ""
			}
			if in {
				cur += l + "\n"
			}
			if in && l == "==================" && len(cur) > 30 {
				out = append(out, cur)
				in = false
			}
		}
		if in && cur != "" {
			out = append(out, cur)
		}
	}
	return out
}

// Races reads the race-detector reports written below $VERIF_BIN/race.* by this process and its
// children. attribute returns a fingerprint for reports that concern the state the property names
// ("" = not this property's business). Attributed reports become violations; the others are
// counted and the heads of the first few are kept in the evidence so that they can be looked at.
func (r *Run) Races(attribute func(report string) string) {
	reps := RaceReports(filepath.Join(os.Getenv("VERIF_BIN"), "race"))
	var samples []string
	for _, rep := range reps {
		if fp := attribute(rep); fp != "" {
			r.Violation(fp, "data race reported by the race detector", rep)
			continue
		}
		r.Count("unattributed_race_reports", 1)
		if len(samples) < 3 {
			lines := splitLines(rep)
			if len(lines) > 40 {
				lines = lines[:40]
			}
			head := ""
			for _, l := range lines {
				head += l + "\n"
			}
			samples = append(samples, head)
		}
	}
	if len(samples) > 0 {
		r.Put("unattributed_race_samples", samples)
	}
	r.Count("race_reports_total", len(reps))
}

// RaceFrame returns the first frame of a report that lies in the given source path fragment.
func RaceFrame(report, fragment string) string {
	prev := ""
	for _, l := range splitLines(report) {
		t := l
		for len(t) > 0 && (t[0] == ' ' || t[0] == '\t') {
			t = t[1:]
		}
		if contains(t, fragment) && len(t) > 0 && t[0] == '/' {
			// prev holds the function line
			fn := prev
			if i := lastIndex(fn, '('); i > 0 {
				fn = fn[:i]
			}
			if i := lastIndex(fn, '/'); i >= 0 {
				fn = fn[i+1:]
			}
			return fn
		}
		prev = t
	}
	return ""
}
