// C04 — copy writes children before parents, the tag last; failure never moves the tag.
// Monitor: (ordering) at every manifest PUT the model registry records, under its state lock,
// which referenced digests are absent; layout targets are snapshotted from inside the source
// registry's request handler while the client is blocked; (atomicity) every request position of
// a clean run is re-run with each fault kind, then tag and repository-wide completeness are
// audited on raw state.
package main

import (
	"context"
	"fmt"
	"net/http"
	"os"
	"strings"
	"sync"
	"time"

	"verif/copyeng"
	"verif/ev"
	"verif/gen"
	la "verif/layoutaudit"
	"verif/modelreg"
)

var run *ev.Run

type httpRW = http.ResponseWriter
type httpReq = *http.Request

var faultKinds = []string{"status:500", "status:500:sticky", "status:503", "status:429", "status:404", "slowstatus:404:40", "status:401", "reset", "cut:3", "stallcancel", "midstallcancel", "cancel", "die"}

func main() {
	run = ev.Start("C04", "fault_enumeration")
	run.Rule("for each seeded graph / pairing / pre-state a clean run numbers the N requests of the copy; then for every (quick: <=24 evenly spread) position p and every fault kind " +
		"{500, sticky 500, 503, 429, 404, slow 404 (answered after 40 ms), 401, connection reset, truncated body, stalled request + cancel, body stalled half way + cancel, context cancel at arrival, process death (no request >= p is ever applied)} the copy is re-run with that fault at p; " +
		"ordering is checked at every manifest PUT of every run; non-trivial = the fault fired and the copy wrote at least one object before it; distinct = (case class, fault kind, kind of the faulted request)")
	run.Assume("faults act before the server applies request p, so 'failed before the final write' is exact; a reply lost after the final PUT was applied is outside the clause",
		"process death is modelled for registry targets as 'no request numbered >= p is applied' (HTTP is the only channel to a registry's state); crash points inside layout writes belong to C07",
		"the subject edge is excluded from children-before-parents (referrers point upwards); graphs whose top manifest has a subject are not generated")
	rng := ev.Rand("c04")
	nGraphs := ev.Scale(40, 400)
	maxPos := ev.Scale(60, 1000)
	for gi := 0; gi < nGraphs; gi++ {
		c := copyeng.RandomCase(rng, gi)
		// pre-states in which the target starts as a set of complete images
		c.Pre = []string{"empty", "partial", "stale", "stale", "partial-manifests"}[rng.Intn(5)]
		c.Pair = []string{"two-reg", "two-reg", "same-reg", "reg2dir", "dir2reg"}[gi%5]
		if c.Opt == "fast" || c.Opt == "external" {
			c.Opt = "default"
		}
		c.Shape.Foreign = false
		if c.Shape.Kind == "image" && rng.Intn(2) == 0 {
			c.Shape.Kind = "index"
		}
		if gi%8 == 5 {
			// a manifest under two parents of one copy: whoever does not copy it himself waits for the one who does,
			// and must wait until it is WRITTEN
			c.Shape.Kind, c.Shape.SharedChild = "nested", true
			if c.Shape.Platforms < 2 {
				c.Shape.Platforms = 2
			}
		}
		c.Procs = 0 // runs execute in parallel; GOMAXPROCS stays at the machine default
		if gi%2 == 1 {
			c.Shape.Share = true
			if c.Shape.Platforms < 2 {
				c.Shape.Platforms = 2 + rng.Intn(2)
			}
		}
		// clean run
		clean := copyeng.Run(c, copyeng.RunOpts{Prepare: installObservers})
		run.Eval(1)
		if clean.Err != nil {
			fmt.Printf("note: clean run of graph %d failed: %v\n", gi, clean.Err)
			run.Count("clean_runs_failed", 1)
			clean.Cleanup()
			continue
		}
		checkOrdering(clean, "clean")
		N := len(clean.Events)
		kinds := make([]string, N+1)
		for _, e := range clean.Events {
			if int(e.Arr) <= N {
				kinds[e.Arr] = e.Method + " " + e.Kind
			}
		}
		clean.Cleanup()
		run.Count("clean_run_requests", N)
		if gi < 3 {
			run.Sample(map[string]any{"case": c, "clean_requests": N, "fault_kinds": faultKinds})
		}
		// positions
		var pos []int
		if N <= maxPos {
			for p := 1; p <= N; p++ {
				pos = append(pos, p)
			}
		} else {
			for k := 0; k < maxPos; k++ {
				pos = append(pos, 1+k*(N-1)/(maxPos-1))
			}
		}
		var wg sync.WaitGroup
		sem := make(chan struct{}, 12)
		for _, p := range pos {
			for _, fk := range faultKinds {
				wg.Add(1)
				sem <- struct{}{}
				go func(p int, fk string) {
					defer wg.Done()
					defer func() { <-sem }()
					faultRun(c, p, fk, kinds)
				}(p, fk)
			}
		}
		wg.Wait()
		// thorough: sampled double faults
		if ev.Tier() == "thorough" && N > 4 {
			for k := 0; k < 40; k++ {
				p1 := 1 + rng.Intn(N-1)
				p2 := p1 + 1 + rng.Intn(N-p1)
				f1 := faultKinds[rng.Intn(len(faultKinds))]
				f2 := faultKinds[rng.Intn(len(faultKinds))]
				doubleFault(c, p1, f1, p2, f2)
			}
		}
	}
	run.Races(func(rep string) string {
		for _, frag := range []string{"/repo/image.go", "/repo/blob.go", "/repo/manifest.go"} {
			if fn := ev.RaceFrame(rep, frag); fn != "" {
				return "race/image-copy/" + fn
			}
		}
		return ""
	})
	if run.Get("faults_fired") < 100 || run.Get("failed_copies_audited") < 50 || run.Get("manifest_puts_inspected") < 100 {
		run.Inconclusive("too few faults fired / failed copies audited / manifest PUTs inspected")
	}
	os.Exit(run.Finish())
}

// installObservers snapshots a layout target from inside the source registry's handler.
func installObservers(r *copyeng.Result) {
	if r.Tgt.IsDir() && !r.Src.IsDir() {
		h := r.Src.Host
		prev := h.Intercept
		h.Intercept = func(e *modelreg.Event, w httpRW, rq httpReq) bool {
			auditLayoutMid(r, fmt.Sprintf("while the client waits for %s %s", e.Method, e.Path))
			if prev != nil {
				return prev(e, w, rq)
			}
			return false
		}
	}
}

var labels sync.Map

func auditLayoutMid(r *copyeng.Result, when string) {
	// a handler may run after the client gave up on the request: only audit while the copy runs
	r.Phase.RLock()
	defer r.Phase.RUnlock()
	if r.Returned {
		return
	}
	if l, ok := labels.Load(r); ok {
		when += " [fault " + l.(string) + "]"
	}
	l := la.Layout{Dir: r.Tgt.Dir}
	idx, err := l.ReadIndex()
	if err != nil {
		return // index being replaced is C07's business; absence before the first write is fine
	}
	run.Count("layout_snapshots_audited", 1)
	if probs := l.AuditManifestFiles(); len(probs) > 0 {
		w := r.Describe()
		w["when"] = when
		w["problems"] = probs
		run.Violation("ordering/layout-parent-before-child/"+r.Case.Pre, fmt.Sprintf("a manifest was written to the layout before its content, observed %s: %s", when, strings.Join(probs, "; ")), w)
		return
	}
	for _, e := range idx.Manifests {
		_, probs := la.Closure(l, e.Digest, e.MediaType, la.WalkOpts{SkipForeign: true})
		if len(probs) > 0 {
			w := r.Describe()
			w["when"] = when
			w["problems"] = probs
			run.Violation("ordering/layout-index-entry-incomplete/"+r.Case.Pre, fmt.Sprintf("layout index lists %s (%s) %s but its content is not complete: %s", e.Digest, e.Annotations[la.AnnotRefName], when, strings.Join(probs, "; ")), w)
			return
		}
	}
}

func checkOrdering(r *copyeng.Result, label string) {
	if r.Tgt.IsDir() {
		return
	}
	tagPut := int64(-1)
	for _, e := range r.Events {
		if e.Host != r.Tgt.Host.Name || e.Repo != r.Tgt.Repo {
			continue
		}
		if e.Kind == "manifest" && e.Method == "PUT" && e.Applied {
			run.Count("manifest_puts_inspected", 1)
			if len(e.MissingRefs) > 0 {
				w := r.Describe()
				w["put"] = e.Path
				w["missing"] = e.MissingRefs
				w["run"] = label
				run.Violation("ordering/parent-before-child/"+r.Case.Pair+"/"+r.Case.Opt, fmt.Sprintf("manifest PUT %s was applied while %d referenced object(s) were absent from the repository: %v (%s run)", e.Path, len(e.MissingRefs), e.MissingRefs, label), w)
			}
			if e.Ref == r.TgtTag {
				tagPut = e.Seq
			}
		}
	}
	if tagPut >= 0 {
		for _, e := range r.Events {
			if e.Host == r.Tgt.Host.Name && e.Repo == r.Tgt.Repo && e.Applied && e.Seq > tagPut {
				w := r.Describe()
				w["after_tag"] = e.Method + " " + e.Path
				run.Violation("ordering/write-after-tag/"+r.Case.Pair+"/"+r.Case.Opt, fmt.Sprintf("the requested tag was written (seq %d) but %s %s changed the repository afterwards (%s run)", tagPut, e.Method, e.Path, label), w)
				break
			}
		}
	}
}

// mkFault builds the fault of kind fk at world-wide request position p.
func mkFault(fk string, p int, cancel context.CancelFunc) *modelreg.Fault {
	f := &modelreg.Fault{At: p}
	switch fk {
	case "status:500:sticky":
		f.Action, f.Sticky = "status:500", true
	case "stallcancel":
		f.Action = "stallcall"
		f.Call = func(*modelreg.Event) {
			go func() { time.Sleep(5 * time.Millisecond); cancel() }()
		}
	case "midstallcancel":
		// the response has begun (headers and half of the body) when the caller gives up: the failure surfaces
		// inside the transfer of the body, not at the request
		f.Action = "midstall"
		f.Call = func(*modelreg.Event) {
			go func() { time.Sleep(5 * time.Millisecond); cancel() }()
		}
	case "cancel":
		f.Action = "call"
		f.Call = func(*modelreg.Event) { cancel() }
	case "die":
		f.Action, f.Sticky = "reset", true
	default:
		f.Action = fk
	}
	return f
}

func faultRun(c copyeng.Case, p int, fk string, kinds []string) {
	ctx, cancel := context.WithTimeout(context.Background(), 60*time.Second)
	defer cancel()
	var plan *modelreg.Plan
	r := copyeng.Run(c, copyeng.RunOpts{Ctx: ctx, RetryLimit: 2, NoClose: true, Prepare: func(r *copyeng.Result) {
		plan = &modelreg.Plan{Faults: []*modelreg.Fault{mkFault(fk, p, cancel)}}
		plan.Install(r.W.Hosts...)
		labels.Store(r, fmt.Sprintf("%s@%d", fk, p))
		if !r.Src.IsDir() && p%2 == 0 {
			// every other position: a source with one store behind both endpoints (its blob endpoint also answers
			// for manifest digests) - a failed manifest copy must not be "repaired" by moving the manifest as a blob
			r.Src.Host.Cfg.ManifestsAsBlobs = true
			run.Count("fault_runs_against_a_source_serving_manifests_as_blobs", 1)
		}
		if r.Tgt.IsDir() && !r.Src.IsDir() {
			h := r.Src.Host
			inner := h.Intercept
			h.Intercept = func(e *modelreg.Event, w httpRW, rq httpReq) bool {
				auditLayoutMid(r, fmt.Sprintf("while the client waits for %s %s", e.Method, e.Path))
				return inner(e, w, rq)
			}
		}
	}})
	defer r.Cleanup()
	defer labels.Delete(r)
	run.Eval(1)
	audit(r, fmt.Sprintf("%s@%d", fk, p), plan.FiredTotal() > 0, fk, kindAt(kinds, p))
}

func doubleFault(c copyeng.Case, p1 int, f1 string, p2 int, f2 string) {
	ctx, cancel := context.WithTimeout(context.Background(), 60*time.Second)
	defer cancel()
	var plan *modelreg.Plan
	r := copyeng.Run(c, copyeng.RunOpts{Ctx: ctx, RetryLimit: 2, NoClose: true, Prepare: func(r *copyeng.Result) {
		plan = &modelreg.Plan{Faults: []*modelreg.Fault{mkFault(f1, p1, cancel), mkFault(f2, p2, cancel)}}
		plan.Install(r.W.Hosts...)
	}})
	defer r.Cleanup()
	run.Eval(1)
	run.Count("double_fault_runs", 1)
	audit(r, fmt.Sprintf("%s@%d+%s@%d", f1, p1, f2, p2), plan.FiredTotal() > 0, f1+"+"+f2, "")
}

func kindAt(kinds []string, p int) string {
	if p < len(kinds) {
		return kinds[p]
	}
	return "?"
}

func audit(r *copyeng.Result, label string, fired bool, fk, reqKind string) {
	c := r.Case
	if r.Hung {
		run.Inconclusive("run hung: " + label + " " + c.Key())
		return
	}
	if fired {
		run.Count("faults_fired", 1)
	}
	if r.Err != nil && strings.HasPrefix(r.Err.Error(), "PANIC") {
		run.Violation("panic/"+fk, r.Err.Error(), r.Describe())
	}
	checkOrdering(r, label)
	if r.Err == nil {
		// the fault was absorbed (or never reached): completeness as in C03
		run.Count("faults_absorbed_copy_succeeded", 1)
		// Only the image's own content is demanded here: a fault on a referrers / digest-tag *discovery*
		// request is indistinguishable, for the client, from "there are none" (404) and belongs to C12.
		ex := copyeng.Expected(r.G, r.G.Top, r.PreFn(), copyeng.Want{ForceRecursive: r.Want.ForceRecursive})
		diff := copyeng.Verify(r.Tgt, ex)
		if extras := copyeng.Verify(r.Tgt, copyeng.Expected(r.G, r.G.Top, r.PreFn(), r.Want)); len(extras) > len(diff) {
			run.Count("absorbed_fault_runs_with_referrers_or_digest_tags_missing", 1)
		}
		if d, ok := r.Tgt.Tag(r.TgtTag); !ok || d != r.G.Nodes[r.G.Top].Digest {
			diff = append(diff, "target tag does not resolve to the source digest")
		}
		if len(diff) > 0 {
			w := r.Describe()
			w["fault"] = label
			w["differences"] = diff
			run.Violation("absorbed-fault-incomplete/"+fk, fmt.Sprintf("copy returned nil after fault %s but the target is incomplete: %s", label, strings.Join(diff, "; ")), w)
		}
		return
	}
	run.Count("failed_copies_audited", 1)
	wrote := 0
	tagApplied := false
	for _, e := range r.Events {
		if e.Applied {
			wrote++
		}
		if !r.Tgt.IsDir() && e.Host == r.Tgt.Host.Name && e.Repo == r.Tgt.Repo && e.Kind == "manifest" && e.Method == "PUT" && e.Applied && e.Ref == r.TgtTag {
			tagApplied = true
		}
	}
	if fired && (wrote > 0 || r.Tgt.IsDir()) {
		run.Distinct(fmt.Sprintf("%s|%s|%s|%s|%s", c.Pair, c.Pre, c.Opt, fk, reqKind))
	}
	w := func() map[string]any {
		d := r.Describe()
		d["fault"] = label
		return d
	}
	// the tag still resolves to what it resolved to before (or is still absent)
	if !tagApplied {
		got, ok := r.Tgt.Tag(r.TgtTag)
		want, had := r.PreTags[r.TgtTag]
		switch {
		case had && (!ok || got != want):
			run.Violation("atomicity/tag-moved/"+c.Pair+"/"+fk, fmt.Sprintf("copy failed (%v) after fault %s but target tag %s now resolves to %q, before the copy: %s", r.Err, label, r.TgtTag, got, want), w())
		case !had && ok && r.Tgt.IsDir():
			run.Violation("atomicity/tag-created/"+c.Pair+"/"+fk, fmt.Sprintf("copy failed (%v) after fault %s but target tag %s was created (%s)", r.Err, label, r.TgtTag, got), w())
		case !had && ok:
			run.Violation("atomicity/tag-created/"+c.Pair+"/"+fk, fmt.Sprintf("copy failed (%v) after fault %s but target tag %s was created (%s) although no tag PUT was applied", r.Err, label, r.TgtTag, got), w())
		}
	}
	// whatever was written remains a set of complete images
	if r.Tgt.IsDir() {
		l := la.Layout{Dir: r.Tgt.Dir}
		probs := l.Audit(true)
		probs = append(probs, l.AuditManifestFiles()...)
		if len(probs) > 0 {
			d := w()
			d["problems"] = probs
			run.Violation("atomicity/layout-incomplete/"+fk, fmt.Sprintf("copy failed after fault %s and the target layout is not a set of complete images: %s", label, strings.Join(probs, "; ")), d)
		}
		return
	}
	st := r.Tgt.Store()
	for _, n := range r.G.Nodes {
		if !n.IsManifest() {
			continue
		}
		if _, _, ok := st.Manifest(n.Digest); !ok {
			continue
		}
		for _, cid := range n.Refs {
			cn := r.G.Nodes[cid]
			if cn.External {
				continue
			}
			if !r.Tgt.Has(cn) {
				d := w()
				run.Violation("atomicity/incomplete-manifest/"+c.Pair+"/"+fk, fmt.Sprintf("copy failed after fault %s; target holds manifest %s (node %d) but not its child %s (node %d)", label, n.Digest, n.ID, cn.Digest, cn.ID), d)
				return
			}
		}
	}
	_ = gen.Shape{}
}
