// C10 — the referrers of a subject are exactly the live manifests that name it.
// Monitor: a reference multimap subject -> {digest -> (artifactType, annotations)} is stepped with
// every history; ReferrerList results (unfiltered and filtered) and the raw fallback-tag content
// are compared with it; concurrent updates of one subject through one client are compared with the
// deterministic quiescent expectation (operations on distinct artifacts commute).
package main

import (
	"context"
	"encoding/json"
	"fmt"
	"math/rand"
	"os"
	"path/filepath"
	"sort"
	"strings"
	"sync"
	"time"

	"github.com/regclient/regclient"
	"github.com/regclient/regclient/scheme"
	"github.com/regclient/regclient/scheme/reg"
	"github.com/regclient/regclient/types/descriptor"
	"github.com/regclient/regclient/types/manifest"
	"github.com/regclient/regclient/types/ref"

	"verif/copyeng"
	"verif/ev"
	"verif/gen"
	la "verif/layoutaudit"
	"verif/modelreg"
	"verif/rcx"
)

var run *ev.Run

type backend struct {
	Kind   string // reg-api reg-fallback reg-fallback-notagdel layout
	Page   int
	Cache  bool
	Filter bool // server-side artifactType filtering is part of the API model
	w      *modelreg.World
	h      *modelreg.Host
	dir    string
}

func (b *backend) key() string { return fmt.Sprintf("%s/page%d/cache=%t", b.Kind, b.Page, b.Cache) }

func (b *backend) ref(tagOrDigest string) ref.Ref {
	if b.dir != "" {
		return rcx.DirRef(b.dir, tagOrDigest)
	}
	return rcx.Ref(b.h, "proj/app", tagOrDigest)
}

func (b *backend) close() {
	if b.w != nil {
		b.w.Close()
	}
	if b.dir != "" {
		_ = os.RemoveAll(b.dir)
	}
}

func newBackend(rng *rand.Rand, kind string) *backend {
	b := &backend{Kind: kind, Cache: rng.Intn(2) == 0}
	switch kind {
	case "layout":
		b.dir, _ = os.MkdirTemp(os.Getenv("VERIF_BIN"), "c10l")
		b.Cache = false
	default:
		b.w = modelreg.NewWorld()
		b.h = b.w.NewHost("reg")
		b.h.Cfg.ReferrersAPI = kind == "reg-api"
		b.h.Cfg.TagDeleteAPI = kind != "reg-fallback-notagdel"
		if kind == "reg-api" {
			b.Page = []int{0, 1, 2}[rng.Intn(3)]
			b.h.Cfg.ReferrersPage = b.Page
		}
	}
	return b
}

func (b *backend) client() *regclient.RegClient {
	var hosts []*modelreg.Host
	if b.h != nil {
		hosts = append(hosts, b.h)
	}
	var ro []reg.Opts
	if b.Cache {
		ro = append(ro, reg.WithCache(time.Minute, 200))
	}
	return rcx.New(hosts, rcx.Opts{RegOpts: ro})
}

type artifact struct {
	n       *gen.Node
	m       manifest.Manifest
	subject string
	at      string
	ann     map[string]string
}

type world struct {
	subjects []string // digests; the last one never exists in the store
	arts     []*artifact
}

var artTypes = []string{"application/vnd.example.sig", "application/vnd.example.sbom", ""}

func mkWorld(rng *rand.Rand, b *backend, nArts int) *world {
	g := gen.New(rng, "sha256")
	w := &world{}
	put := func(n *gen.Node) {
		if b.dir != "" {
			_ = gen.WriteLayoutBlob(b.dir, n.Digest, n.Content)
		} else if n.IsManifest() {
			b.h.PutManifest("proj/app", "sha256", n.MT, n.Content, "")
		} else {
			b.h.PutBlob("proj/app", "sha256", n.Content)
		}
	}
	var subjNodes []*gen.Node
	for i := 0; i < 3; i++ {
		cfg := g.Config("oci", nil, 1)
		l := g.Blob("layer", la.MTOCILayerGz, 20)
		im := g.Image(cfg, []*gen.Node{l}, gen.ImageOpts{Family: "oci", Annotations: map[string]string{"s": fmt.Sprint(i, rng.Int63())}})
		subjNodes = append(subjNodes, im)
		w.subjects = append(w.subjects, im.Digest)
		if i < 2 {
			put(cfg)
			put(l)
			put(im)
		}
	}
	if b.dir != "" {
		var es []gen.Obj
		for i, s := range subjNodes[:2] {
			es = append(es, gen.Obj{{K: "mediaType", V: s.MT}, {K: "digest", V: s.Digest}, {K: "size", V: len(s.Content)}, {K: "annotations", V: map[string]string{la.AnnotRefName: fmt.Sprintf("img%d", i)}}})
		}
		_ = gen.WriteLayoutIndex(b.dir, es)
	} else {
		b.h.SetTag("proj/app", "img0", subjNodes[0].Digest)
		b.h.SetTag("proj/app", "img1", subjNodes[1].Digest)
	}
	for i := 0; i < nArts; i++ {
		var subj *gen.Node
		if i > 2 && rng.Intn(5) == 0 && len(w.arts) > 0 {
			subj = w.arts[rng.Intn(len(w.arts))].n // a referrer of a referrer
		} else {
			subj = subjNodes[rng.Intn(3)]
			if rng.Intn(2) == 0 {
				subj = subjNodes[0] // concentrate on one subject
			}
		}
		at := artTypes[rng.Intn(len(artTypes))]
		ann := map[string]string{"org.example.id": fmt.Sprint(i), "org.example.kind": []string{"x", "y"}[rng.Intn(2)]}
		if rng.Intn(4) == 0 {
			ann = nil
		}
		var n *gen.Node
		if rng.Intn(5) == 0 {
			// an index as referrer
			cfg := g.Config("oci", nil, 1)
			l := g.Blob("layer", la.MTOCILayerGz, 10)
			im := g.Image(cfg, []*gen.Node{l}, gen.ImageOpts{Family: "oci"})
			put(cfg)
			put(l)
			put(im)
			n = g.Index("oci", []*gen.Node{im}, subj, ann)
			at = ""
		} else {
			cfg := g.BlobBytes("config", la.MTOCIEmpty, []byte("{}"))
			l := g.Blob("layer", "application/vnd.example.payload", 10+rng.Intn(30))
			put(cfg)
			put(l)
			n = g.Image(cfg, []*gen.Node{l}, gen.ImageOpts{Family: "oci", Subject: subj, ArtifactType: at, Annotations: ann})
		}
		m, err := manifest.New(manifest.WithRaw(n.Content))
		if err != nil {
			panic(err)
		}
		eff := at
		if eff == "" && n.Kind != "index" {
			eff = la.MTOCIEmpty // OCI rule: artifactType of an image manifest without one is its config media type
		}
		w.arts = append(w.arts, &artifact{n: n, m: m, subject: subj.Digest, at: eff, ann: ann})
	}
	return w
}

type entry struct {
	Digest string
	AT     string
	Ann    string
}

func annStr(a map[string]string) string {
	if len(a) == 0 {
		return ""
	}
	b, _ := json.Marshal(a)
	return string(b)
}

func listKey(es []entry) string {
	var s []string
	for _, e := range es {
		s = append(s, e.Digest[:19]+"|"+e.AT+"|"+e.Ann)
	}
	sort.Strings(s)
	return strings.Join(s, " ; ")
}

// expected list for a subject from the model, with optional filters
func expected(live map[string]*artifact, subject, at string, annK, annV string) []entry {
	var out []entry
	for _, a := range live {
		if a.subject != subject {
			continue
		}
		if at != "" && a.at != at {
			continue
		}
		if annK != "" && a.ann[annK] != annV {
			continue
		}
		out = append(out, entry{a.n.Digest, a.at, annStr(a.ann)})
	}
	return out
}

func fromDescs(ds []descriptor.Descriptor) ([]entry, bool) {
	var out []entry
	seen := map[string]bool{}
	dup := false
	for _, d := range ds {
		if seen[string(d.Digest)] {
			dup = true
		}
		seen[string(d.Digest)] = true
		out = append(out, entry{string(d.Digest), d.ArtifactType, annStr(d.Annotations)})
	}
	return out, dup
}

// rawFallback reads the fallback tag content from raw storage (nil, false if the tag does not exist).
func (b *backend) rawFallback(subject string) ([]entry, bool, error) {
	tag := copyeng.FallbackTag(subject)
	var raw []byte
	if b.dir != "" {
		l := la.Layout{Dir: b.dir}
		idx, err := l.ReadIndex()
		if err != nil {
			return nil, false, err
		}
		var dg string
		for _, d := range idx.Manifests {
			if d.Annotations[la.AnnotRefName] == tag {
				dg = d.Digest
			}
		}
		if dg == "" {
			return nil, false, nil
		}
		bb, ok := l.Blob(dg)
		if !ok {
			return nil, true, fmt.Errorf("fallback tag %s names %s which is missing", tag, dg)
		}
		raw = bb
	} else {
		st := modelreg.Store{H: b.h, Name: "proj/app"}
		dg, ok := st.Tag(tag)
		if !ok {
			return nil, false, nil
		}
		bb, _, ok := st.Manifest(dg)
		if !ok {
			return nil, true, fmt.Errorf("fallback tag %s names %s which is missing", tag, dg)
		}
		raw = bb
	}
	var idx struct {
		Manifests []la.Desc `json:"manifests"`
	}
	if err := json.Unmarshal(raw, &idx); err != nil {
		return nil, true, err
	}
	var out []entry
	for _, d := range idx.Manifests {
		out = append(out, entry{d.Digest, d.ArtifactType, annStr(d.Annotations)})
	}
	return out, true, nil
}

func checkList(rc *regclient.RegClient, b *backend, w *world, live map[string]*artifact, subject string, hist []string, rng *rand.Rand) bool {
	ctx, cancel := context.WithTimeout(context.Background(), 30*time.Second)
	defer cancel()
	at, annK, annV := "", "", ""
	var opts []scheme.ReferrerOpts
	switch rng.Intn(4) {
	case 1:
		at = artTypes[rng.Intn(2)]
		opts = append(opts, scheme.WithReferrerMatchOpt(descriptor.MatchOpt{ArtifactType: at}))
	case 2:
		annK, annV = "org.example.kind", []string{"x", "y"}[rng.Intn(2)]
		opts = append(opts, scheme.WithReferrerMatchOpt(descriptor.MatchOpt{Annotations: map[string]string{annK: annV}}))
	}
	// the subject may be named by digest alone or by a pinned reference (tag and digest): both name the same
	// manifest, and everything the client remembers about the subject has to be found under either spelling
	rSubj, form := b.ref(subject), "by-digest"
	for i := 0; i < 2 && i < len(w.subjects); i++ {
		if w.subjects[i] == subject && rng.Intn(3) == 0 {
			rSubj, form = b.ref(fmt.Sprintf("img%d", i)).AddDigest(subject), "by-tag-and-digest"
		}
	}
	run.Count("lists_"+form, 1)
	rl, err := rc.ReferrerList(ctx, rSubj, opts...)
	wit := map[string]any{"backend": b.key(), "history": hist, "subject": subject, "subject_reference": rSubj.CommonName(), "filter_artifact_type": at, "filter_annotation": annK + "=" + annV}
	filt := "unfiltered"
	if at != "" {
		filt = "artifactType"
	} else if annK != "" {
		filt = "annotation"
	}
	if err != nil {
		run.Violation("list-fails/"+b.Kind+"/"+filt, fmt.Sprintf("ReferrerList failed: %v [history: %s]", err, strings.Join(hist, "; ")), wit)
		return false
	}
	got, dup := fromDescs(rl.Descriptors)
	want := expected(live, subject, at, annK, annV)
	wit["got"], wit["want"] = listKey(got), listKey(want)
	run.Count("listings_compared", 1)
	if dup {
		run.Violation("duplicate-referrer/"+b.Kind+"/"+filt, fmt.Sprintf("ReferrerList returned a manifest twice: %s [history: %s]", listKey(got), strings.Join(hist, "; ")), wit)
		return false
	}
	if listKey(got) != listKey(want) {
		cls := "wrong-set"
		gs, ws := map[string]bool{}, map[string]bool{}
		for _, e := range got {
			gs[e.Digest] = true
		}
		for _, e := range want {
			ws[e.Digest] = true
		}
		lost, extra := false, false
		for d := range ws {
			if !gs[d] {
				lost = true
			}
		}
		for d := range gs {
			if !ws[d] {
				extra = true
			}
		}
		switch {
		case lost && !extra:
			cls = "referrer-lost"
		case extra && !lost:
			cls = "referrer-left-over"
		case !lost && !extra:
			cls = "metadata-differs"
		}
		run.Violation(fmt.Sprintf("%s/%s/%s/cache=%t", cls, b.Kind, filt, b.Cache), fmt.Sprintf("ReferrerList(%s, %s) returned {%s}, live manifests naming the subject: {%s} [history: %s]", short(subject), filt, listKey(got), listKey(want), strings.Join(hist, "; ")), wit)
		return false
	}
	return true
}

func short(d string) string {
	if len(d) > 19 {
		return d[:19]
	}
	return d
}

func checkRaw(b *backend, w *world, live map[string]*artifact, hist []string) bool {
	if b.Kind == "reg-api" {
		return true
	}
	for _, s := range w.subjectsAll() {
		got, exists, err := b.rawFallback(s)
		want := expected(live, s, "", "", "")
		if err != nil {
			run.Violation("fallback-tag-broken/"+b.Kind, fmt.Sprintf("%v [history: %s]", err, strings.Join(hist, "; ")), map[string]any{"backend": b.key(), "history": hist})
			return false
		}
		if !exists && len(want) == 0 {
			continue
		}
		if listKey(got) != listKey(want) {
			run.Violation("fallback-tag-disagrees/"+b.Kind, fmt.Sprintf("the stored fallback tag of %s lists {%s}, live manifests naming the subject: {%s} [history: %s]", short(s), listKey(got), listKey(want), strings.Join(hist, "; ")), map[string]any{"backend": b.key(), "history": hist})
			return false
		}
		run.Count("fallback_tags_compared", 1)
	}
	return true
}

func (w *world) subjectsAll() []string {
	seen := map[string]bool{}
	var out []string
	for _, s := range w.subjects {
		if !seen[s] {
			seen[s] = true
			out = append(out, s)
		}
	}
	for _, a := range w.arts {
		if !seen[a.subject] {
			seen[a.subject] = true
			out = append(out, a.subject)
		}
	}
	return out
}

func sequential(i int) {
	rng := ev.Rand(fmt.Sprintf("c10/seq/%d", i))
	kind := []string{"reg-api", "reg-fallback", "reg-fallback-notagdel", "layout"}[i%4]
	b := newBackend(rng, kind)
	defer b.close()
	w := mkWorld(rng, b, 5+rng.Intn(4))
	rc := b.client()
	live := map[string]*artifact{}
	var hist []string
	ctx, cancel := context.WithTimeout(context.Background(), 60*time.Second)
	defer cancel()
	run.Eval(1)
	n := 4 + rng.Intn(16)
	for s := 0; s < n; s++ {
		a := w.arts[rng.Intn(len(w.arts))]
		switch op := rng.Intn(10); {
		case op < 4:
			// the three ways a client pushes an artifact: as a child (what image copy does), as a
			// top-level manifest by digest, and by tag (what "regctl artifact put" does)
			var err error
			mode := []string{"child", "by-digest", "by-tag"}[rng.Intn(3)]
			switch mode {
			case "child":
				err = rc.ManifestPut(ctx, b.ref(a.n.Digest), a.m, regclient.WithManifestChild())
			case "by-digest":
				err = rc.ManifestPut(ctx, b.ref(a.n.Digest), a.m)
			case "by-tag":
				err = rc.ManifestPut(ctx, b.ref("art-"+strings.ReplaceAll(short(a.n.Digest), ":", "-")), a.m)
			}
			run.Count("puts_"+mode, 1)
			hist = append(hist, fmt.Sprintf("put-%s(%s subject %s)", mode, short(a.n.Digest), short(a.subject)))
			if err != nil {
				run.Violation("put-fails/"+b.Kind, fmt.Sprintf("pushing an artifact failed: %v [history: %s]", err, strings.Join(hist, "; ")), map[string]any{"backend": b.key(), "history": hist})
				return
			}
			live[a.n.Digest] = a
		case op < 7:
			_, isLive := live[a.n.Digest]
			err := rc.ManifestDelete(ctx, b.ref(a.n.Digest), regclient.WithManifestCheckReferrers())
			hist = append(hist, fmt.Sprintf("delete(%s)", short(a.n.Digest)))
			if isLive && err != nil {
				run.Violation("delete-fails/"+b.Kind, fmt.Sprintf("referrer-aware delete of a stored artifact failed: %v [history: %s]", err, strings.Join(hist, "; ")), map[string]any{"backend": b.key(), "history": hist})
				return
			}
			if err == nil {
				delete(live, a.n.Digest)
			} else {
				hist[len(hist)-1] += " -> " + "error (not stored)"
			}
		default:
			subj := w.subjectsAll()[rng.Intn(len(w.subjectsAll()))]
			hist = append(hist, fmt.Sprintf("list(%s)", short(subj)))
			if !checkList(rc, b, w, live, subj, hist, rng) {
				return
			}
			continue
		}
		// after every mutation: raw fallback content and the listing of the touched subject
		if !checkRaw(b, w, live, hist) {
			return
		}
		if rng.Intn(2) == 0 {
			if !checkList(rc, b, w, live, a.subject, hist, rng) {
				return
			}
		}
	}
	// final: every subject
	for _, s := range w.subjectsAll() {
		if !checkList(rc, b, w, live, s, append(hist, "final-list("+short(s)+")"), rng) {
			return
		}
	}
	run.Distinct(fmt.Sprintf("seq/%s/len%d", b.key(), len(hist)/5))
	if i < 3 {
		run.Sample(map[string]any{"backend": b.key(), "history": hist})
	}
}

// concurrent updates of one subject through one client
func concurrent(i int) {
	rng := ev.Rand(fmt.Sprintf("c10/conc/%d", i))
	kind := []string{"reg-fallback", "reg-fallback", "reg-fallback-notagdel", "layout", "reg-api"}[i%5]
	b := newBackend(rng, kind)
	defer b.close()
	w := mkWorld(rng, b, 8)
	// all artifacts of this run refer to subject 0
	var arts []*artifact
	for _, a := range w.arts {
		if a.subject == w.subjects[0] {
			arts = append(arts, a)
		}
	}
	if len(arts) < 4 {
		return
	}
	if b.h != nil {
		// the server delays fallback-tag requests: they sit exactly between the client's read and its write
		var mu sync.Mutex
		jr := rand.New(rand.NewSource(rng.Int63()))
		b.h.Cfg.Latency = func(e *modelreg.Event) time.Duration {
			if e.Kind == "manifest" && strings.HasPrefix(e.Ref, "sha256-") {
				mu.Lock()
				defer mu.Unlock()
				return time.Duration(500+jr.Intn(4000)) * time.Microsecond
			}
			return 0
		}
	}
	rc := b.client()
	ctx, cancel := context.WithTimeout(context.Background(), 60*time.Second)
	defer cancel()
	live := map[string]*artifact{}
	// pre-state: some artifacts already pushed (sequentially)
	pre := 1 + rng.Intn(2)
	for _, a := range arts[:pre] {
		if err := rc.ManifestPut(ctx, b.ref(a.n.Digest), a.m, regclient.WithManifestChild()); err != nil {
			return
		}
		live[a.n.Digest] = a
	}
	type act struct {
		a   *artifact
		del bool
	}
	var acts []act
	for k, a := range arts {
		if k < pre {
			if rng.Intn(2) == 0 {
				acts = append(acts, act{a, true}) // delete a pre-existing one
			}
		} else if len(acts) < 4 {
			acts = append(acts, act{a, false})
		}
	}
	if len(acts) < 2 {
		return
	}
	var wg sync.WaitGroup
	errs := make([]error, len(acts))
	var desc []string
	for k, ac := range acts {
		if ac.del {
			desc = append(desc, "delete("+short(ac.a.n.Digest)+")")
		} else {
			desc = append(desc, "put("+short(ac.a.n.Digest)+")")
		}
		wg.Add(1)
		go func(k int, ac act) {
			defer wg.Done()
			if ac.del {
				errs[k] = rc.ManifestDelete(ctx, b.ref(ac.a.n.Digest), regclient.WithManifestCheckReferrers())
			} else {
				errs[k] = rc.ManifestPut(ctx, b.ref(ac.a.n.Digest), ac.a.m, regclient.WithManifestChild())
			}
		}(k, ac)
	}
	wg.Wait()
	run.Eval(1)
	for k, e := range errs {
		if e != nil {
			run.Count("concurrent_operation_errors", 1)
			run.Put("last_concurrent_error", e.Error())
			_ = k
			return // an error is reported to the caller; the quiescent expectation needs all to succeed
		}
	}
	for _, ac := range acts {
		if ac.del {
			delete(live, ac.a.n.Digest)
		} else {
			live[ac.a.n.Digest] = ac.a
		}
	}
	hist := []string{fmt.Sprintf("pre-state %d referrers", pre), "concurrently: " + strings.Join(desc, " || ")}
	shape := ""
	for _, ac := range acts {
		if ac.del {
			shape += "d"
		} else {
			shape += "p"
		}
	}
	okRaw := checkRawConc(b, w, live, hist, shape)
	if okRaw {
		// a fresh client sees storage, not this client's cache
		fresh := (&backend{Kind: b.Kind, w: b.w, h: b.h, dir: b.dir}).client()
		checkList(fresh, b, w, live, w.subjects[0], append(hist, "list with a fresh client"), rand.New(rand.NewSource(1)))
		checkList(rc, b, w, live, w.subjects[0], append(hist, "list with the same client"), rand.New(rand.NewSource(1)))
	}
	run.Count("concurrent_histories_checked", 1)
	run.Distinct(fmt.Sprintf("conc/%s/%s", b.Kind, shape))
}

func checkRawConc(b *backend, w *world, live map[string]*artifact, hist []string, shape string) bool {
	if b.Kind == "reg-api" {
		return true
	}
	s := w.subjects[0]
	got, exists, err := b.rawFallback(s)
	want := expected(live, s, "", "", "")
	if err != nil {
		run.Violation("concurrent/fallback-tag-broken/"+b.Kind, err.Error(), map[string]any{"history": hist})
		return false
	}
	if !exists && len(want) == 0 {
		return true
	}
	if listKey(got) != listKey(want) {
		kind := "update-lost"
		run.Violation(fmt.Sprintf("concurrent/%s/%s/%s", kind, b.Kind, shape), fmt.Sprintf("after concurrent updates of one subject through one client (all returned nil) the stored fallback tag lists {%s}, expected {%s} [%s]", listKey(got), listKey(want), strings.Join(hist, "; ")), map[string]any{"backend": b.key(), "history": hist, "got": listKey(got), "want": listKey(want)})
		return false
	}
	return true
}

func main() {
	run = ev.Start("C10", "exploration")
	run.Rule("sequential histories of 4-20 operations {push artifact, referrer-aware delete, list unfiltered / by artifactType / by annotation} over 3 subjects (one never stored), 5-8 artifacts of 3 artifact types incl. image manifests without artifactType, indexes as referrers, referrers of referrers, re-pushes, deletion of the last referrer; backends: registry with the referrers API (page size unlimited / 1 / 2, server-side filter), without it (fallback tag; with and without the tag-delete API), response cache on / off, OCI layouts; raw fallback-tag content compared after every mutation; " +
		"concurrent: 2-4 simultaneous pushes / deletes of distinct artifacts of one subject through one client with server-side delays on the fallback-tag requests, compared with the deterministic quiescent expectation; non-trivial = every history; distinct = (backend, length / shape class)")
	run.Assume("comparison is on {digest, artifactType, annotations} as a set; descriptor order is ignored", "artifactType of an image-manifest referrer without artifactType is its config media type (OCI rule)",
		"concurrent histories in which an operation returned an error are not judged (the caller was told)")
	var wg sync.WaitGroup
	sem := make(chan struct{}, 12)
	nSeq := ev.Scale(4000, 50000)
	for i := 0; i < nSeq; i++ {
		wg.Add(1)
		sem <- struct{}{}
		go func(i int) { defer wg.Done(); defer func() { <-sem }(); sequential(i) }(i)
	}
	wg.Wait()
	nConc := ev.Scale(1500, 20000)
	for i := 0; i < nConc; i++ {
		wg.Add(1)
		sem <- struct{}{}
		go func(i int) { defer wg.Done(); defer func() { <-sem }(); concurrent(i) }(i)
	}
	wg.Wait()
	for _, rep := range ev.RaceReports(filepath.Join(os.Getenv("VERIF_BIN"), "race")) {
		if strings.Contains(rep, "referrer") || strings.Contains(rep, "Referrer") {
			run.Violation("race/referrers", "data race in referrer handling", rep)
		} else {
			run.Count("unattributed_race_reports", 1)
		}
	}
	if run.Get("listings_compared") < 1000 || run.Get("fallback_tags_compared") < 500 || run.Get("concurrent_histories_checked") < int64(nConc)/4 {
		run.Inconclusive("too few comparisons")
	}
	os.Exit(run.Finish())
}
