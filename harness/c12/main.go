// C12 — bounded retries, recovery from transient faults, writes that skip mirrors.
// Monitor: recording / hostile model hosts count requests per host, method and logical request,
// record arrival and reply instants (lower bounds only), and compare the result and the raw end
// state of every operation with its fault-free run.
package main

import (
	"bytes"
	"context"
	"crypto/sha256"
	"encoding/json"
	"fmt"
	"io"
	"log/slog"
	"net/http"
	"os"
	"path/filepath"
	"sort"
	"strings"
	"sync"
	"time"

	"github.com/opencontainers/go-digest"
	"github.com/regclient/regclient"
	"github.com/regclient/regclient/config"
	"github.com/regclient/regclient/types/descriptor"
	"github.com/regclient/regclient/types/manifest"
	"github.com/regclient/regclient/types/ref"

	"verif/ev"
	"verif/gen"
	la "verif/layoutaudit"
	"verif/modelreg"
	"verif/rcx"
)

var run *ev.Run

// env is one small world: an upstream registry (plus optional mirrors) holding one index.
type env struct {
	w            *modelreg.World
	up           *modelreg.Host
	mirrors      []*modelreg.Host
	g            *gen.Graph
	repo         string
	extra        []byte // content of a blob to upload
	artRaw       []byte
	artMT        string
	initialBlobs map[string]bool
	alias        string // when set, the client knows the registry under this name (config Name) and reaches it at up.Addr() (config Hostname)
}

// ref names a manifest / repository of the upstream registry the way the client's configuration knows it.
func (e *env) ref(tagOrDigest string) ref.Ref { return e.refIn(e.repo, tagOrDigest) }

func (e *env) refIn(repo, tagOrDigest string) ref.Ref {
	r := rcx.Ref(e.up, repo, tagOrDigest)
	if e.alias == "" {
		return r
	}
	s := e.alias + "/" + repo
	if strings.Contains(tagOrDigest, ":") {
		s += "@" + tagOrDigest
	} else if tagOrDigest != "" {
		s += ":" + tagOrDigest
	}
	ra, err := ref.New(s)
	if err != nil {
		panic(err)
	}
	return ra
}

func newEnv(seed int64, nMirrors int, api bool) *env {
	e := &env{w: modelreg.NewWorld(), repo: "proj/app"}
	rng := ev.Rand(fmt.Sprintf("c12/env/%d", seed))
	e.g = gen.Random(rng, "sha256", gen.Shape{Family: "oci", Kind: "index", Platforms: 2, Layers: 2, Referrers: 2, MaxBlob: 600}, "v1")
	e.up = e.w.NewHost("upstream")
	e.up.Cfg.ReferrersAPI = api
	e.up.Cfg.TagDeleteAPI = api
	e.up.Cfg.TagPage = 2
	e.up.Cfg.ReferrersPage = 1
	populate(e.up, e)
	for i := 0; i < nMirrors; i++ {
		m := e.w.NewHost(fmt.Sprintf("mirror%d", i+1))
		m.Cfg.ReferrersAPI = api
		e.mirrors = append(e.mirrors, m)
	}
	e.extra = make([]byte, 700)
	rng.Read(e.extra)
	// an extra artifact manifest to push (refers to the top index)
	g2 := gen.New(rng, "sha256")
	cfg := g2.BlobBytes("config", la.MTOCIEmpty, []byte("{}"))
	l := g2.Blob("layer", "application/vnd.example.payload", 50)
	top := e.g.Nodes[e.g.Top]
	art := g2.Image(cfg, []*gen.Node{l}, gen.ImageOpts{Family: "oci", ArtifactType: "application/vnd.example.new", Subject: &gen.Node{MT: top.MT, Digest: top.Digest, Content: top.Content}})
	e.up.PutBlob(e.repo, "sha256", cfg.Content)
	e.up.PutBlob(e.repo, "sha256", l.Content)
	e.artRaw, e.artMT = art.Content, art.MT
	e.initialBlobs = map[string]bool{}
	for _, kv := range e.up.Snapshot() {
		for k := range kv {
			if strings.HasPrefix(k, "blob/") {
				e.initialBlobs[strings.TrimPrefix(k, "blob/")] = true
			}
		}
	}
	return e
}

func populate(h *modelreg.Host, e *env) {
	e.g.ToHost(h, e.repo, nil, true)
	for _, t := range []string{"a1", "b2", "c3", "d4", "e5"} {
		h.SetTag(e.repo, t, e.g.Nodes[e.g.Top].Digest)
	}
	if !h.Cfg.ReferrersAPI {
		// fallback tags as a producer would have left them
		for _, n := range e.g.Nodes {
			if refs := e.g.ReferrersOf(n.ID); len(refs) > 0 {
				var es []gen.Obj
				for _, rid := range refs {
					rn := e.g.Nodes[rid]
					es = append(es, gen.Obj{{K: "mediaType", V: rn.MT}, {K: "digest", V: rn.Digest}, {K: "size", V: len(rn.Content)}, {K: "artifactType", V: rn.ArtifactType}, {K: "annotations", V: rn.Annotations}})
				}
				b, _ := json.Marshal(gen.Obj{{K: "schemaVersion", V: 2}, {K: "mediaType", V: la.MTOCIIndex}, {K: "manifests", V: es}})
				alg, enc, _ := la.SplitDigest(n.Digest)
				h.PutManifest(e.repo, "sha256", la.MTOCIIndex, b, alg+"-"+enc)
			}
		}
	}
	h.W.Lock()
	h.Repo("other/repo")
	h.W.Unlock()
}

func (e *env) client(retry int, delayInit, delayMax time.Duration, prio map[string]uint) *regclient.RegClient {
	hosts := append([]*modelreg.Host{e.up}, e.mirrors...)
	return rcx.New(hosts, rcx.Opts{RetryLimit: retry, DelayInit: delayInit, DelayMax: delayMax, Mutate: func(name string, c *config.Host) {
		if name == "upstream" {
			for _, m := range e.mirrors {
				c.Mirrors = append(c.Mirrors, m.Addr())
			}
			if e.alias != "" {
				c.Name, c.Hostname = e.alias, e.up.Addr()
			}
		}
		if p, ok := prio[name]; ok {
			c.Priority = p
		}
		c.BlobChunk = 256
	}})
}

// stateHash fingerprints the upstream's raw end state. Blobs no manifest refers to are left out: the
// documented tag-delete fallback leaves (time-stamped) placeholder blobs behind by design.
func (e *env) stateHash() string {
	snap := e.up.Snapshot()
	e.w.Lock()
	refd := map[string]bool{}
	for _, rp := range e.up.Repos {
		for _, m := range rp.Manifests {
			if pm, err := la.Parse(m.Raw, m.MT); err == nil {
				for _, c := range pm.Children() {
					refd[c.Desc.Digest] = true
				}
			}
		}
	}
	e.w.Unlock()
	for _, kv := range snap {
		for k := range kv {
			if strings.HasPrefix(k, "blob/") && !refd[strings.TrimPrefix(k, "blob/")] && !e.initialBlobs[strings.TrimPrefix(k, "blob/")] {
				delete(kv, k)
			}
		}
	}
	b, _ := json.Marshal(snap)
	s := sha256.Sum256(b)
	return fmt.Sprintf("%x", s[:8])
}

type opFn func(ctx context.Context, rc *regclient.RegClient, e *env) (string, error)

type operation struct {
	name     string
	mutating bool
	fn       opFn
}

func firstLayer(e *env) *gen.Node {
	for _, n := range e.g.Nodes {
		if n.Kind == "layer" && len(n.Content) > 300 {
			return n
		}
	}
	for _, n := range e.g.Nodes {
		if n.Kind == "layer" {
			return n
		}
	}
	return nil
}

func someImage(e *env) *gen.Node {
	for _, n := range e.g.Nodes {
		if n.Kind == "image" {
			return n
		}
	}
	return nil
}

func ops() []operation {
	return []operation{
		{"manifest-get-tag", false, func(ctx context.Context, rc *regclient.RegClient, e *env) (string, error) {
			m, err := rc.ManifestGet(ctx, e.ref("v1"))
			if err != nil {
				return "", err
			}
			raw, _ := m.RawBody()
			return fmt.Sprintf("%s %d", m.GetDescriptor().Digest, len(raw)), nil
		}},
		{"manifest-get-digest", false, func(ctx context.Context, rc *regclient.RegClient, e *env) (string, error) {
			m, err := rc.ManifestGet(ctx, e.ref(someImage(e).Digest))
			if err != nil {
				return "", err
			}
			raw, _ := m.RawBody()
			return fmt.Sprintf("%s %x", m.GetDescriptor().Digest, sha256.Sum256(raw)), nil
		}},
		{"manifest-head", false, func(ctx context.Context, rc *regclient.RegClient, e *env) (string, error) {
			m, err := rc.ManifestHead(ctx, e.ref("v1"))
			if err != nil {
				return "", err
			}
			return string(m.GetDescriptor().Digest), nil
		}},
		{"blob-get", false, func(ctx context.Context, rc *regclient.RegClient, e *env) (string, error) {
			l := firstLayer(e)
			r, err := rc.BlobGet(ctx, e.ref(""), descriptor.Descriptor{Digest: digest.Digest(l.Digest), Size: int64(len(l.Content))})
			if err != nil {
				return "", err
			}
			defer r.Close()
			b, err := io.ReadAll(r)
			if err != nil {
				return "", err
			}
			return fmt.Sprintf("%x", sha256.Sum256(b)), nil
		}},
		{"blob-head", false, func(ctx context.Context, rc *regclient.RegClient, e *env) (string, error) {
			l := firstLayer(e)
			r, err := rc.BlobHead(ctx, e.ref(""), descriptor.Descriptor{Digest: digest.Digest(l.Digest)})
			if err != nil {
				return "", err
			}
			return string(r.GetDescriptor().Digest), nil
		}},
		{"tag-list", false, func(ctx context.Context, rc *regclient.RegClient, e *env) (string, error) {
			tl, err := rc.TagList(ctx, e.ref(""))
			if err != nil {
				return "", err
			}
			ts, err := tl.GetTags()
			sort.Strings(ts)
			return strings.Join(ts, ","), err
		}},
		{"repo-list", false, func(ctx context.Context, rc *regclient.RegClient, e *env) (string, error) {
			rl, err := rc.RepoList(ctx, e.up.Addr())
			if err != nil {
				return "", err
			}
			rs, err := rl.GetRepos()
			sort.Strings(rs)
			return strings.Join(rs, ","), err
		}},
		{"referrer-list", false, func(ctx context.Context, rc *regclient.RegClient, e *env) (string, error) {
			rl, err := rc.ReferrerList(ctx, e.ref(e.g.Nodes[e.g.Top].Digest))
			if err != nil {
				return "", err
			}
			var ds []string
			for _, d := range rl.Descriptors {
				ds = append(ds, string(d.Digest))
			}
			sort.Strings(ds)
			return strings.Join(ds, ","), nil
		}},
		{"blob-put-mono", true, func(ctx context.Context, rc *regclient.RegClient, e *env) (string, error) {
			d, err := rc.BlobPut(ctx, e.refIn("other/repo", ""), descriptor.Descriptor{Digest: digest.Digest(la.Digest("sha256", e.extra)), Size: int64(len(e.extra))}, bytes.NewReader(e.extra))
			return string(d.Digest), err
		}},
		{"blob-put-chunked", true, func(ctx context.Context, rc *regclient.RegClient, e *env) (string, error) {
			d, err := rc.BlobPut(ctx, e.refIn("other/repo", ""), descriptor.Descriptor{}, bytes.NewReader(e.extra))
			return string(d.Digest), err
		}},
		{"blob-delete", true, func(ctx context.Context, rc *regclient.RegClient, e *env) (string, error) {
			l := firstLayer(e)
			return "", rc.BlobDelete(ctx, e.ref(""), descriptor.Descriptor{Digest: digest.Digest(l.Digest)})
		}},
		{"blob-mount", true, func(ctx context.Context, rc *regclient.RegClient, e *env) (string, error) {
			l := firstLayer(e)
			return "", rc.BlobMount(ctx, e.ref(""), e.refIn("other/repo", ""), descriptor.Descriptor{Digest: digest.Digest(l.Digest), Size: int64(len(l.Content))})
		}},
		{"manifest-put", true, func(ctx context.Context, rc *regclient.RegClient, e *env) (string, error) {
			m, err := manifest.New(manifest.WithRaw(e.artRaw), manifest.WithDesc(descriptor.Descriptor{MediaType: e.artMT}))
			if err != nil {
				return "", fmt.Errorf("harness: %w", err)
			}
			return "", rc.ManifestPut(ctx, e.ref("art"), m)
		}},
		{"manifest-delete", true, func(ctx context.Context, rc *regclient.RegClient, e *env) (string, error) {
			var ref *gen.Node
			for _, n := range e.g.Nodes {
				if n.Subject >= 0 {
					ref = n
				}
			}
			return "", rc.ManifestDelete(ctx, e.ref(ref.Digest), regclient.WithManifestCheckReferrers())
		}},
		{"tag-delete", true, func(ctx context.Context, rc *regclient.RegClient, e *env) (string, error) {
			return "", rc.TagDelete(ctx, e.ref("c3"))
		}},
		{"image-copy-same-reg", true, func(ctx context.Context, rc *regclient.RegClient, e *env) (string, error) {
			return "", rc.ImageCopy(ctx, e.ref("v1"), e.refIn("other/repo", "copy"))
		}},
	}
}

func runOp(o operation, e *env, rc *regclient.RegClient, timeout time.Duration) (res string, err error, hung bool) {
	ctx, cancel := context.WithTimeout(context.Background(), timeout)
	defer cancel()
	type out struct {
		s string
		e error
	}
	ch := make(chan out, 1)
	go func() {
		defer func() {
			if p := recover(); p != nil {
				ch <- out{"", fmt.Errorf("PANIC: %v", p)}
			}
		}()
		s, e2 := o.fn(ctx, rc, e)
		ch <- out{s, e2}
	}()
	select {
	case r := <-ch:
		return r.s, r.e, false
	case <-time.After(timeout + 20*time.Second):
		return "", fmt.Errorf("did not return"), true
	}
}

func reqList(w *modelreg.World) []string {
	var out []string
	for _, e := range w.Log() {
		out = append(out, fmt.Sprintf("%s %s %s?%s cr=%q -> %d %s", e.Host, e.Method, e.Path, e.Query, e.ContentRange, e.Status, e.Fault))
	}
	if len(out) > 60 {
		out = append(out[:40], append([]string{fmt.Sprintf("... %d more ...", len(out)-50)}, out[len(out)-10:]...)...)
	}
	return out
}

var retryable = []string{"status:500", "status:502", "status:504", "status:408", "status:429", "reset", "cut:5"}

// ---- (c) transient faults fewer than the limit are absorbed ---------------------------------

func absorb() {
	const retry = 3
	for _, api := range []bool{true, false} {
		for _, o := range ops() {
			// fault-free run
			e0 := newEnv(1, 0, api)
			rc0 := e0.client(retry, time.Millisecond, 4*time.Millisecond, nil)
			want, err0, _ := runOp(o, e0, rc0, 20*time.Second)
			e0.w.WaitIdle()
			wantState := e0.stateHash()
			N := len(e0.w.Log())
			kinds := map[int64]string{}
			for _, ev := range e0.w.Log() {
				kinds[ev.Arr] = ev.Method + " " + ev.Kind
			}
			e0.w.Close()
			run.Eval(1)
			if err0 != nil {
				run.Violation("faultfree-operation-failed/"+o.name, fmt.Sprintf("operation %s failed without any fault (api=%t): %v", o.name, api, err0), nil)
				continue
			}
			var wg sync.WaitGroup
			sem := make(chan struct{}, 12)
			for p := 1; p <= N; p++ {
				for _, fk := range retryable {
					for f := 1; f <= retry-1; f++ {
						if ev.Tier() == "quick" && f == 1 && (fk == "status:502" || fk == "status:408") {
							continue
						}
						if fk == "cut:5" && kinds[int64(p)] != "GET blob" {
							continue // truncated bodies are only recoverable from a range-capable endpoint (blobs)
						}
						wg.Add(1)
						sem <- struct{}{}
						go func(p int, fk string, f int) {
							defer wg.Done()
							defer func() { <-sem }()
							absorbOne(o, api, p, fk, f, retry, want, wantState, kinds[int64(p)])
						}(p, fk, f)
					}
				}
			}
			wg.Wait()
		}
	}
}

func absorbOne(o operation, api bool, p int, fk string, f, retry int, want, wantState, reqKind string) {
	e := newEnv(1, 0, api)
	defer e.w.Close()
	// f consecutive faults on the logical request that is the p-th request of the clean run:
	// the first fires at position p, the following ones at the immediately following requests of the same kind+path
	var mu sync.Mutex
	var target string
	fired := 0
	seen := 0
	e.up.Intercept = func(evn *modelreg.Event, w http.ResponseWriter, r *http.Request) bool {
		mu.Lock()
		seen++
		key := evn.Method + " " + evn.Path + "?" + evn.Query + " " + evn.ContentRange
		hit := false
		if seen == p {
			target = key
			hit = true
		} else if target != "" && key == target {
			hit = true
		}
		if hit && fired < f {
			fired++
		} else {
			hit = false
		}
		mu.Unlock()
		if !hit {
			return false
		}
		return injectFault(e.up, fk, evn, w, r)
	}
	rc := e.client(retry, time.Millisecond, 4*time.Millisecond, nil)
	got, err, hung := runOp(o, e, rc, 20*time.Second)
	e.w.WaitIdle()
	run.Eval(1)
	if fired == 0 {
		return
	}
	run.Count("transient_fault_runs", 1)
	cls := fmt.Sprintf("%s/api=%t/%s/x%d/%s", o.name, api, strings.ReplaceAll(fk, ":", ""), f, strings.ReplaceAll(reqKind, " ", "-"))
	run.Distinct(cls)
	wit := map[string]any{"operation": o.name, "referrers_api": api, "fault": fk, "consecutive_faults": fired, "at_request": p, "request_kind": reqKind, "retry_limit": retry, "want": want, "got": got, "err": fmt.Sprint(err), "requests": reqList(e.w)}
	switch {
	case hung:
		run.Inconclusive("operation hung: " + cls)
	case err != nil:
		run.Violation("transient-not-absorbed/"+o.name+"/"+strings.ReplaceAll(reqKind, " ", "-")+"/"+strings.ReplaceAll(fk, ":", ""), fmt.Sprintf("%d transient fault(s) %s on %s (request %d) with retry limit %d made %s fail: %v", fired, fk, reqKind, p, retry, o.name, err), wit)
	case got != want:
		run.Violation("transient-changes-result/"+o.name+"/"+strings.ReplaceAll(reqKind, " ", "-")+"/"+strings.ReplaceAll(fk, ":", ""), fmt.Sprintf("%d transient fault(s) %s on %s (request %d) changed the result of %s from %q to %q", fired, fk, reqKind, p, o.name, want, got), wit)
	case o.mutating && e.stateHash() != wantState:
		run.Violation("transient-changes-state/"+o.name+"/"+strings.ReplaceAll(reqKind, " ", "-")+"/"+strings.ReplaceAll(fk, ":", ""), fmt.Sprintf("%d transient fault(s) %s on %s (request %d): %s returned nil but the registry's end state differs from the fault-free run", fired, fk, reqKind, p, o.name), wit)
	default:
		run.Count("transient_faults_absorbed", 1)
		if p == 1 && f == 1 {
			run.Sample(map[string]any{"operation": o.name, "referrers_api": api, "fault": fk, "consecutive_faults": fired, "at_request": p, "request_kind": reqKind, "retry_limit": retry, "result": "absorbed, result and end state equal the fault-free run"})
		}
	}
}

func injectFault(h *modelreg.Host, fk string, evn *modelreg.Event, w http.ResponseWriter, r *http.Request) bool {
	pl := &modelreg.Plan{Faults: []*modelreg.Fault{{Action: fk}}}
	return pl.InterceptOn(h, evn, w, r)
}

// ---- (a) attempt bound and (b) back-off lower bounds --------------------------------------------

func attemptsAndBackoff() {
	single := []string{"manifest-get-digest", "manifest-head", "blob-head", "repo-list", "blob-delete"}
	all := ops()
	pick := func(n string) operation {
		for _, o := range all {
			if o.name == n {
				return o
			}
		}
		panic(n)
	}
	for _, retry := range []int{1, 2, 3, 5} {
		for _, name := range single {
			for _, fk := range []string{"status:500", "status:429", "status:503", "status:404", "status:401", "status:403", "reset", "status:502", "status:418"} {
				o := pick(name)
				e := newEnv(1, 0, true)
				(&modelreg.Plan{Faults: []*modelreg.Fault{{Action: fk}}}).Install(e.up) // sticky: every request fails
				rc := e.client(retry, time.Millisecond, 2*time.Millisecond, nil)
				_, err, hung := runOp(o, e, rc, 15*time.Second)
				e.w.WaitIdle()
				n := len(e.w.Log())
				run.Eval(1)
				run.Count("attempt_bound_cases", 1)
				run.Distinct(fmt.Sprintf("attempts/%s/%s/r%d", name, fk, retry))
				if hung {
					run.Inconclusive("attempt-bound case hung")
				}
				if err == nil {
					run.Violation("always-failing-host-succeeds/"+name, fmt.Sprintf("%s returned nil although every request was answered %s", name, fk), map[string]any{"requests": reqList(e.w)})
				}
				if n > retry+1 {
					run.Violation("attempt-bound/"+name+"/"+strings.ReplaceAll(fk, ":", ""), fmt.Sprintf("one logical request (%s) was attempted %d times with retry limit %d (bound %d) against a host answering %s", name, n, retry, retry+1, fk), map[string]any{"requests": reqList(e.w)})
				}
				e.w.Close()
			}
		}
	}
	// back-off: lower bound on the k-th retry after the first failure, measured at the server
	// (reply instant of the first failure is earlier, arrival of the retry later than at the client)
	for _, d := range []time.Duration{20 * time.Millisecond, 40 * time.Millisecond} {
		for _, fk := range []string{"status:500", "status:429", "status:504", "reset"} {
			o := pick("manifest-get-digest")
			e := newEnv(1, 0, true)
			var mu sync.Mutex
			var replied, arrivals []time.Time
			e.up.Intercept = func(evn *modelreg.Event, w http.ResponseWriter, r *http.Request) bool {
				mu.Lock()
				arrivals = append(arrivals, time.Now())
				mu.Unlock()
				ok := injectFault(e.up, fk, evn, w, r)
				mu.Lock()
				replied = append(replied, time.Now())
				mu.Unlock()
				return ok
			}
			rc := e.client(5, d, 8*d, nil)
			_, _, _ = runOp(o, e, rc, 30*time.Second)
			e.w.WaitIdle()
			run.Eval(1)
			mu.Lock()
			for k := 1; k < len(arrivals); k++ {
				gap := arrivals[k].Sub(replied[0])
				run.Count("backoff_gaps_checked", 1)
				if gap < time.Duration(k)*d {
					run.Violation("backoff-too-short/"+strings.ReplaceAll(fk, ":", ""), fmt.Sprintf("retry %d arrived %v after the first %s reply; configured initial delay %v demands at least %v", k, gap, fk, d, time.Duration(k)*d), map[string]any{"delay": d.String(), "fault": fk})
					break
				}
			}
			if len(arrivals) < 2 {
				run.Inconclusive("back-off case saw no retry")
			}
			mu.Unlock()
			e.w.Close()
		}
	}
	// server-requested delay
	for _, name := range []string{"manifest-get-digest"} {
		o := pick(name)
		e := newEnv(1, 0, true)
		var mu sync.Mutex
		var first, second time.Time
		n := 0
		e.up.Intercept = func(evn *modelreg.Event, w http.ResponseWriter, r *http.Request) bool {
			mu.Lock()
			n++
			k := n
			mu.Unlock()
			if k == 1 {
				w.Header().Set("Retry-After", "1")
				w.WriteHeader(429)
				mu.Lock()
				first = time.Now()
				mu.Unlock()
				return true
			}
			if k == 2 {
				mu.Lock()
				second = time.Now()
				mu.Unlock()
			}
			return false
		}
		rc := e.client(3, time.Millisecond, 2*time.Millisecond, nil)
		_, err, _ := runOp(o, e, rc, 30*time.Second)
		run.Eval(1)
		if err != nil {
			run.Violation("retry-after-not-absorbed", fmt.Sprintf("a single 429 with Retry-After: 1 made %s fail: %v", name, err), nil)
		} else if second.Sub(first) < time.Second {
			run.Violation("retry-after-ignored", fmt.Sprintf("server asked for Retry-After: 1 but the next request arrived after %v", second.Sub(first)), nil)
		} else {
			run.Count("retry_after_honoured", 1)
		}
		e.w.Close()
	}
}

// retryAfterAcrossSuccess: a server-requested delay must survive the completion of a request that was
// already being answered when the 429 was sent. Sequence (all ordering by observed events, no sleeps):
// A = blob GET, headers and half the body sent, then held; B = manifest HEAD answered 429 Retry-After: 1
// at server instant T; the client logs "Sleeping for backoff" for B (so it has recorded the deadline);
// A is released and returns; only then C (a new request) is started. C must not arrive before T+1s.
func retryAfterAcrossSuccess() {
	for rep := 0; rep < ev.Scale(2, 6); rep++ {
		e := newEnv(1, 0, true)
		layer := firstLayer(e)
		img := someImage(e)
		var mu sync.Mutex
		var tReply, tC time.Time
		holdA, aStarted := make(chan struct{}), make(chan struct{})
		nHead := 0
		e.up.Intercept = func(evn *modelreg.Event, w http.ResponseWriter, r *http.Request) bool {
			switch {
			case evn.Kind == "blob" && evn.Method == "GET":
				w.Header().Set("Content-Length", fmt.Sprint(len(layer.Content)))
				w.Header().Set("Content-Type", "application/octet-stream")
				w.Header().Set("Docker-Content-Digest", layer.Digest)
				w.WriteHeader(200)
				_, _ = w.Write(layer.Content[:len(layer.Content)/2])
				if f, ok := w.(http.Flusher); ok {
					f.Flush()
				}
				close(aStarted)
				<-holdA
				_, _ = w.Write(layer.Content[len(layer.Content)/2:])
				return true
			case evn.Kind == "manifest" && evn.Method == "HEAD":
				mu.Lock()
				nHead++
				k := nHead
				if k == 1 {
					tReply = time.Now()
				}
				mu.Unlock()
				if k == 1 {
					w.Header().Set("Retry-After", "1")
					w.WriteHeader(429)
					return true
				}
			case evn.Kind == "tags":
				mu.Lock()
				if tC.IsZero() {
					tC = time.Now()
				}
				mu.Unlock()
			}
			return false
		}
		sleeping := make(chan struct{}, 8)
		lg := slog.New(&notifyHandler{match: "Sleeping for backoff", ch: sleeping})
		rc := rcx.New([]*modelreg.Host{e.up}, rcx.Opts{RetryLimit: 3, Extra: []regclient.Opt{regclient.WithSlog(lg)}})
		ctx, cancel := context.WithTimeout(context.Background(), 30*time.Second)
		aDone, bDone := make(chan error, 1), make(chan error, 1)
		go func() {
			rd, err := rc.BlobGet(ctx, e.ref("v1"), descriptor.Descriptor{Digest: digest.Digest(layer.Digest)})
			if err == nil {
				_, err = io.Copy(io.Discard, rd)
				_ = rd.Close()
			}
			aDone <- err
		}()
		ok := true
		select {
		case <-aStarted:
		case <-ctx.Done():
			ok = false
		}
		if ok {
			go func() {
				_, err := rc.ManifestHead(ctx, e.ref(img.Digest))
				bDone <- err
			}()
			select {
			case <-sleeping:
			case <-ctx.Done():
				ok = false
			}
		}
		close(holdA)
		if ok {
			select {
			case <-aDone:
			case <-ctx.Done():
				ok = false
			}
		}
		run.Eval(1)
		if !ok {
			run.Count("retry_after_interleavings_not_reached", 1)
		} else {
			_, errC := rc.TagList(ctx, e.ref("v1"))
			<-bDone
			mu.Lock()
			gap := tC.Sub(tReply)
			mu.Unlock()
			run.Count("retry_after_interleavings", 1)
			if errC != nil || tC.IsZero() {
				run.Count("retry_after_interleavings_not_reached", 1)
				run.Put("retry_after_interleaving_not_reached_reason", fmt.Sprintf("request after the interleaving failed: %v", errC))
			} else if gap < time.Second {
				run.Violation("retry-after-dropped-by-concurrent-success", fmt.Sprintf("server answered 429 Retry-After: 1; after an older download finished a new request arrived only %v after that reply", gap),
					map[string]any{"sequence": "A=blob GET held mid-body; B=manifest HEAD -> 429 Retry-After: 1; client sleeping for B; A released and returned; C=tag list started", "gap": gap.String(), "requests": reqList(e.w)})
			} else {
				run.Count("retry_after_kept_across_success", 1)
			}
		}
		cancel()
		e.w.Close()
	}
}

// terminationAfterFailures: "every client operation terminates" also after a history of operations that
// failed in ways that abandon a request half way. Through one client with the default of three concurrent
// requests per host: five pushes from a stream that cannot be replayed, each hit by one transient 500 on its
// upload request (they fail, legitimately), mixed with downloads abandoned mid-body and requests cancelled
// while the server stalls; then a plain manifest HEAD. It must return (and succeed) while its context is live.
func terminationAfterFailures() {
	for rep := 0; rep < ev.Scale(3, 12); rep++ {
		rng := ev.Rand(fmt.Sprintf("c12/term/%d", rep))
		e := newEnv(1, 0, true)
		layer := firstLayer(e)
		img := someImage(e)
		var mu sync.Mutex
		mode := ""
		putSeen := map[string]bool{}
		e.up.Intercept = func(evn *modelreg.Event, w http.ResponseWriter, r *http.Request) bool {
			mu.Lock()
			m := mode
			first := false
			if m == "500-on-first-put" && evn.Kind == "upload-put" && !putSeen[evn.Path] {
				putSeen[evn.Path] = true
				first = true
			}
			mu.Unlock()
			switch {
			case first:
				w.WriteHeader(500)
				return true
			case m == "stall" && evn.Kind == "blob":
				<-r.Context().Done()
				modelreg.DropConn(w)
				return true
			}
			return false
		}
		rc := rcx.New([]*modelreg.Host{e.up}, rcx.Opts{RetryLimit: 3, Mutate: func(name string, c *config.Host) { c.ReqConcurrent = 3 }})
		set := func(m string) { mu.Lock(); mode = m; mu.Unlock() }
		var hist []string
		for k := 0; k < 5+rng.Intn(4); k++ {
			ctx, cancel := context.WithTimeout(context.Background(), 20*time.Second)
			var err error
			op := []string{"push-unreplayable", "push-unreplayable", "blob-abandoned", "blob-cancelled"}[rng.Intn(4)]
			switch op {
			case "push-unreplayable":
				set("500-on-first-put")
				body := make([]byte, 300+rng.Intn(500))
				rng.Read(body)
				d := descriptor.Descriptor{Digest: digest.FromBytes(body), Size: int64(len(body))}
				_, err = rc.BlobPut(ctx, e.ref(""), d, io.MultiReader(bytes.NewReader(body)))
			case "blob-abandoned":
				set("")
				var rd io.ReadCloser
				rd, err = rc.BlobGet(ctx, e.ref(""), descriptor.Descriptor{Digest: digest.Digest(layer.Digest)})
				if err == nil {
					_, _ = rd.Read(make([]byte, 8))
					err = rd.Close()
				}
			case "blob-cancelled":
				set("stall")
				c2, cancel2 := context.WithTimeout(ctx, 150*time.Millisecond)
				_, err = rc.BlobGet(c2, e.ref(""), descriptor.Descriptor{Digest: digest.Digest(layer.Digest)})
				cancel2()
			}
			cancel()
			hist = append(hist, fmt.Sprintf("%s -> %v", op, err != nil))
			// successes in between, so that the host is not simply written off as failing (which would keep
			// later operations from being attempted at all and so hide what the failed ones left behind)
			set("")
			for j := 0; j < 8; j++ {
				c3, cancel3 := context.WithTimeout(context.Background(), 15*time.Second)
				before := e.w.Requests()
				_, herr := rc.ManifestHead(c3, e.ref(img.Digest))
				expired := c3.Err() != nil
				cancel3()
				if herr != nil && expired && e.w.Requests() == before {
					e.w.WaitIdle()
					run.Eval(1)
					run.Count("termination_histories", 1)
					run.Violation("operation-never-sent-after-failed-operations", "after a history of failed / abandoned operations a plain manifest HEAD never reached the registry and only returned when its 15 s context expired: earlier operations kept the host's request slots", map[string]any{"history": hist, "err": fmt.Sprint(herr)})
					e.w.Close()
					return
				}
			}
		}
		set("")
		ctx, cancel := context.WithTimeout(context.Background(), 15*time.Second)
		before := e.w.Requests()
		_, err := rc.ManifestHead(ctx, e.ref(img.Digest))
		expired := ctx.Err() != nil
		cancel()
		e.w.WaitIdle()
		run.Eval(1)
		run.Count("termination_histories", 1)
		if rep == 0 {
			run.Sample(map[string]any{"termination_history": hist, "final_head_err": fmt.Sprint(err), "requests": reqList(e.w)})
		}
		switch {
		case err != nil && expired && e.w.Requests() == before:
			run.Violation("operation-never-sent-after-failed-operations", "after a history of failed / abandoned operations a plain manifest HEAD never reached the registry and only returned when its 15 s context expired: earlier operations kept the host's request slots", map[string]any{"history": hist, "err": fmt.Sprint(err)})
		case err != nil && !expired:
			// the host may be backing off after the failures: failing fast is the documented behaviour
			run.Count("termination_head_failed_fast", 1)
		case err == nil:
			run.Count("termination_head_ok", 1)
		default:
			run.Inconclusive("termination scenario: HEAD reached the server but did not finish within 15 s")
		}
		e.w.Close()
	}
}

func retryAfterNonVacuity() {
	if run.Get("retry_after_kept_across_success") == 0 && run.Get("retry_after_interleavings_not_reached") > 0 {
		run.Inconclusive("the Retry-After interleaving was never reached")
	}
}

// notifyHandler is a slog handler that signals when a record with the given message is logged.
type notifyHandler struct {
	match string
	ch    chan struct{}
}

func (h *notifyHandler) Enabled(context.Context, slog.Level) bool { return true }
func (h *notifyHandler) Handle(_ context.Context, r slog.Record) error {
	if r.Message == h.match {
		select {
		case h.ch <- struct{}{}:
		default:
		}
	}
	return nil
}
func (h *notifyHandler) WithAttrs([]slog.Attr) slog.Handler { return h }
func (h *notifyHandler) WithGroup(string) slog.Handler      { return h }

// ---- (d) mirrors ----------------------------------------------------------------------------------

func mirrors() {
	rng := ev.Rand("c12/mirrors")
	all := ops()
	n := ev.Scale(150, 1500)
	for i := 0; i < n; i++ {
		nm := 1 + rng.Intn(3)
		e := newEnv(1, nm, true)
		prio := map[string]uint{"upstream": uint(rng.Intn(3))}
		has := map[string]string{"upstream": "has"}
		names := []string{"upstream"}
		for k, m := range e.mirrors {
			prio[m.Name] = uint(rng.Intn(4))
			st := []string{"has", "has", "lacks", "fails"}[rng.Intn(4)]
			has[m.Name] = st
			names = append(names, m.Name)
			switch st {
			case "has":
				populate(m, e)
			case "fails":
				populate(m, e)
				(&modelreg.Plan{Faults: []*modelreg.Fault{{Action: "status:503"}}}).Install(m)
			}
			m.Cfg.ReadOnly = false
			_ = k
		}
		if rng.Intn(4) == 0 {
			has["upstream"] = "lacks-manifest"
		}
		if i%3 == 2 {
			// the registry is configured under a name that differs from the host it is reached at (as docker.io
			// is, or any entry with a hostname of its own): "the named registry" is the entry, whatever its address
			e.alias = "registry.alias.test"
			run.Count("mirror_cases_with_registry_name_differing_from_hostname", 1)
		}
		rc := e.client(3, time.Millisecond, 2*time.Millisecond, prio)
		// read: order of first attempts and fallback
		o := all[rng.Intn(5)] // the five read operations on manifests / blobs
		e.w.ResetLog()
		_, err, _ := runOp(o, e, rc, 20*time.Second)
		e.w.WaitIdle()
		run.Eval(1)
		var order []string
		seen := map[string]bool{}
		for _, evn := range e.w.Log() {
			if !seen[evn.Host] {
				seen[evn.Host] = true
				order = append(order, evn.Host)
			}
		}
		// expected: priorities never increase along the contact order, the named registry comes after the
		// mirrors of its own priority, nobody who should have been asked first is skipped, and the walk ends
		// at a host that has the content (order among mirrors of equal priority is free)
		var problems []string
		kinds := map[string][]string{}
		note := func(kind, what string) {
			problems = append(problems, what)
			kinds[kind] = append(kinds[kind], what)
		}
		for k := 0; k+1 < len(order); k++ {
			a, b := order[k], order[k+1]
			if prio[a] < prio[b] {
				note("priority-order", fmt.Sprintf("%s (priority %d) was tried before %s (priority %d)", a, prio[a], b, prio[b]))
			}
			if prio[a] == prio[b] && a == "upstream" {
				note("upstream-not-last-among-equals", fmt.Sprintf("the named registry was tried before mirror %s of equal priority", b))
			}
		}
		if len(order) > 0 {
			last := order[len(order)-1]
			for _, h := range names {
				if seen[h] {
					continue
				}
				if prio[h] > prio[last] {
					note("priority-order", fmt.Sprintf("%s (priority %d) was never tried although %s (priority %d) was", h, prio[h], last, prio[last]))
				} else if prio[h] == prio[last] && last == "upstream" {
					note("upstream-not-last-among-equals", fmt.Sprintf("mirror %s was never tried although the named registry, of equal priority (%d), was", h, prio[h]))
				}
			}
		}
		wit := map[string]any{"priorities": prio, "content": has, "operation": o.name, "observed_first_contacts": order, "problems": problems, "requests": reqList(e.w), "registry_configured_under_another_name": e.alias != ""}
		run.Distinct(fmt.Sprintf("mirror-read/mirrors=%d/%s", nm, strings.Join(order, ">")))
		if err != nil {
			run.Violation("mirror-read-fails/"+o.name, fmt.Sprintf("%s failed although a host has the content: %v", o.name, err), wit)
		} else if len(problems) > 0 {
			// one report per kind of problem: an order that is wrong in two ways is two findings
			for _, kind := range []string{"priority-order", "upstream-not-last-among-equals"} {
				if ps := kinds[kind]; len(ps) > 0 {
					run.Violation("mirror-order/"+kind, fmt.Sprintf("hosts were tried in the order %v with priorities %v: %s", order, prio, strings.Join(ps, "; ")), wit)
				}
			}
		} else {
			run.Count("mirror_read_orders_correct", 1)
		}
		// writes never reach a mirror
		for _, wo := range all {
			if !wo.mutating {
				continue
			}
			if rng.Intn(3) != 0 {
				continue
			}
			e.w.ResetLog()
			_, _, _ = runOp(wo, e, rc, 20*time.Second)
			e.w.WaitIdle()
			run.Count("mutating_ops_with_mirrors", 1)
			for _, evn := range e.w.Log() {
				if evn.Host != "upstream" && evn.Mutating {
					run.Violation("write-to-mirror/"+wo.name+"/"+evn.Method+"-"+evn.Kind, fmt.Sprintf("%s sent %s %s to mirror %s", wo.name, evn.Method, evn.Path, evn.Host), map[string]any{"operation": wo.name, "requests": reqList(e.w)})
					break
				}
			}
		}
		e.w.Close()
	}
}

// mirrorsBackingOff: a host that asked for a pause (Retry-After) is offered after the others while the pause
// lasts. One mirror of the registry's own priority: the first read meets "429 Retry-After: 3" at the mirror
// (reply instant T taken at the server before the reply is written) and is served by the registry. A second
// read is started at once: T+3 s lies in the future when the call starts, so the mirror is backing off and
// the registry has to be contacted first (and, having the content, is the only host contacted).
func mirrorsBackingOff() {
	all := ops()
	for rep, name := range []string{"manifest-head", "manifest-get-digest", "blob-head", "manifest-head"}[:ev.Scale(3, 4)] {
		var o operation
		for _, x := range all {
			if x.name == name {
				o = x
			}
		}
		e := newEnv(1, 1, true)
		m := e.mirrors[0]
		populate(m, e)
		var mu sync.Mutex
		var tReply time.Time
		m.Intercept = func(evn *modelreg.Event, w http.ResponseWriter, r *http.Request) bool {
			mu.Lock()
			first := tReply.IsZero()
			if first {
				tReply = time.Now()
			}
			mu.Unlock()
			if first {
				w.Header().Set("Retry-After", "3")
				w.WriteHeader(429)
				return true
			}
			return false
		}
		rc := e.client(3, time.Millisecond, 2*time.Millisecond, map[string]uint{"upstream": 1, m.Name: 1})
		_, err1, _ := runOp(o, e, rc, 20*time.Second)
		e.w.WaitIdle()
		e.w.ResetLog()
		tCall := time.Now()
		_, err2, _ := runOp(o, e, rc, 20*time.Second)
		e.w.WaitIdle()
		run.Eval(1)
		mu.Lock()
		t := tReply
		mu.Unlock()
		first := ""
		if l := e.w.Log(); len(l) > 0 {
			first = l[0].Host
		}
		wit := map[string]any{"operation": name, "first_read_err": fmt.Sprint(err1), "second_read_err": fmt.Sprint(err2), "second_read_requests": reqList(e.w), "call_started_after_the_429": tCall.Sub(t).String()}
		switch {
		case t.IsZero() || err1 != nil:
			run.Count("backing_off_scenarios_not_reached", 1)
			run.Put("backing_off_scenario_not_reached_reason", fmt.Sprintf("scenario %d: the first read did not meet the mirror's 429 and succeed (%v)", rep, err1))
		case !tCall.Before(t.Add(3 * time.Second)):
			run.Count("backing_off_scenarios_not_reached", 1)
			run.Put("backing_off_scenario_not_reached_reason", "the second read could only be started after the pause had ended")
		case first == m.Name:
			run.Violation("mirror-order/backing-off-host-first", fmt.Sprintf("%s: the mirror had asked for a pause of 3 s (Retry-After) %v before the read started, yet it was contacted first instead of the registry", name, tCall.Sub(t)), wit)
		case err2 != nil:
			run.Violation("mirror-read-fails/"+name, fmt.Sprintf("%s failed although the registry has the content: %v", name, err2), wit)
		default:
			run.Count("backing_off_mirror_offered_last", 1)
		}
		e.w.Close()
	}
}

func backingOffNonVacuity() {
	if run.Get("backing_off_mirror_offered_last") == 0 && run.Get("backing_off_scenarios_not_reached") > 0 {
		run.Inconclusive("no back-off order scenario could be evaluated")
	}
}

// mirrorIgnoringRange: a download from a mirror is cut mid-body; the mirror answers the resume request with the
// whole body (it ignores Range: 200, no Content-Range). The client has to fall back to the registry, which
// honours the range, and deliver the exact bytes.
func mirrorIgnoringRange() {
	for rep := 0; rep < ev.Scale(3, 12); rep++ {
		e := newEnv(1, 1, true)
		m := e.mirrors[0]
		populate(m, e)
		m.Cfg.RangeMode = "ignore"
		layer := firstLayer(e)
		cut := 1 + (rep*37)%(len(layer.Content)-1)
		(&modelreg.Plan{Faults: []*modelreg.Fault{{At: 1, Action: fmt.Sprintf("cut:%d", cut), Match: func(evn *modelreg.Event) bool { return evn.Kind == "blob" && evn.Method == "GET" }}}}).Install(m)
		rc := e.client(3, time.Millisecond, 2*time.Millisecond, map[string]uint{"upstream": 1, m.Name: 1})
		ctx, cancel := context.WithTimeout(context.Background(), 20*time.Second)
		var got []byte
		rd, err := rc.BlobGet(ctx, e.ref(""), descriptor.Descriptor{Digest: digest.Digest(layer.Digest), Size: int64(len(layer.Content))})
		if err == nil {
			got, err = io.ReadAll(rd)
			_ = rd.Close()
		}
		cancel()
		e.w.WaitIdle()
		run.Eval(1)
		wit := map[string]any{"cut_at": cut, "blob_len": len(layer.Content), "err": fmt.Sprint(err), "received": len(got), "requests": reqList(e.w)}
		if err != nil || !bytes.Equal(got, layer.Content) {
			run.Violation("transient-changes-result/blob-get/mirror-ignores-range", fmt.Sprintf("a download cut at byte %d at a mirror that answers the resume with the whole body did not fall back to the registry: err=%v, %d of %d bytes", cut, err, len(got), len(layer.Content)), wit)
		} else {
			run.Count("resume_fell_back_from_range_ignoring_mirror", 1)
		}
		e.w.Close()
	}
}

// ---- (e) hostile servers: bounded progress ----------------------------------------------------------

// linkCycle makes every listing reply of the given kind carry a Link to the next of k pages, the
// last one pointing back to the first.
func linkCycle(e *env, kind string, k int) {
	e.up.Intercept = func(evn *modelreg.Event, w http.ResponseWriter, r *http.Request) bool {
		if evn.Kind != kind {
			return false
		}
		cur := 0
		fmt.Sscanf(r.URL.Query().Get("page"), "%d", &cur)
		w.Header().Set("Link", fmt.Sprintf("<%s?n=1&page=%d>; rel=\"next\"", r.URL.Path, (cur+1)%k))
		if kind == "tags" {
			w.Header().Set("Content-Type", "application/json")
			_, _ = w.Write([]byte(`{"name":"proj/app","tags":["a1"]}`))
		} else {
			w.Header().Set("Content-Type", la.MTOCIIndex)
			_, _ = w.Write([]byte(`{"schemaVersion":2,"mediaType":"application/vnd.oci.image.index.v1+json","manifests":[]}`))
		}
		return true
	}
}

func hostile() {
	const cap = 300
	type hcase struct {
		name  string
		op    string
		setup func(e *env)
	}
	cases := []hcase{
		{"patch-416-location-range-no-progress", "blob-put-chunked", func(e *env) {
			e.up.Intercept = func(evn *modelreg.Event, w http.ResponseWriter, r *http.Request) bool {
				if evn.Kind != "upload-patch" {
					return false
				}
				w.Header().Set("Location", evn.RawURL)
				w.Header().Set("Range", "0-0")
				w.WriteHeader(416)
				return true
			}
		}},
		{"patch-202-range-never-advances", "blob-put-chunked", func(e *env) {
			e.up.Intercept = func(evn *modelreg.Event, w http.ResponseWriter, r *http.Request) bool {
				if evn.Kind != "upload-patch" {
					return false
				}
				w.Header().Set("Location", evn.RawURL)
				w.Header().Set("Range", "0-0")
				w.WriteHeader(202)
				return true
			}
		}},
		{"patch-500-status-never-advances", "blob-put-chunked", func(e *env) {
			e.up.Intercept = func(evn *modelreg.Event, w http.ResponseWriter, r *http.Request) bool {
				if evn.Kind != "upload-patch" {
					return false
				}
				w.WriteHeader(500)
				return true
			}
		}},
		{"tag-list-link-self-cycle", "tag-list", func(e *env) {
			e.up.Intercept = func(evn *modelreg.Event, w http.ResponseWriter, r *http.Request) bool {
				if evn.Kind != "tags" {
					return false
				}
				w.Header().Set("Link", fmt.Sprintf("<%s>; rel=\"next\"", evn.RawURL))
				w.Header().Set("Content-Type", "application/json")
				_, _ = w.Write([]byte(`{"name":"proj/app","tags":["a1"]}`))
				return true
			}
		}},
		{"tag-list-link-two-cycle", "tag-list", func(e *env) {
			e.up.Intercept = func(evn *modelreg.Event, w http.ResponseWriter, r *http.Request) bool {
				if evn.Kind != "tags" {
					return false
				}
				next := "/v2/proj/app/tags/list?n=1&last=a1"
				if strings.Contains(evn.Query, "last=a1") {
					next = "/v2/proj/app/tags/list?n=1&last=b2"
				}
				w.Header().Set("Link", fmt.Sprintf("<%s>; rel=\"next\"", next))
				w.Header().Set("Content-Type", "application/json")
				_, _ = w.Write([]byte(`{"name":"proj/app","tags":["a1"]}`))
				return true
			}
		}},
		{"referrers-link-self-cycle", "referrer-list", func(e *env) {
			e.up.Intercept = func(evn *modelreg.Event, w http.ResponseWriter, r *http.Request) bool {
				if evn.Kind != "referrers" {
					return false
				}
				w.Header().Set("Link", fmt.Sprintf("<%s>; rel=\"next\"", evn.RawURL))
				w.Header().Set("Content-Type", la.MTOCIIndex)
				_, _ = w.Write([]byte(`{"schemaVersion":2,"mediaType":"application/vnd.oci.image.index.v1+json","manifests":[]}`))
				return true
			}
		}},
		{"referrers-link-two-cycle", "referrer-list", func(e *env) { linkCycle(e, "referrers", 2) }},
		{"referrers-link-three-cycle", "referrer-list", func(e *env) { linkCycle(e, "referrers", 3) }},
		{"tag-list-link-three-cycle", "tag-list", func(e *env) { linkCycle(e, "tags", 3) }},
		{"redirect-loop", "blob-get", func(e *env) {
			e.up.Intercept = func(evn *modelreg.Event, w http.ResponseWriter, r *http.Request) bool {
				if evn.Kind != "blob" {
					return false
				}
				w.Header().Set("Location", evn.RawURL)
				w.WriteHeader(307)
				return true
			}
		}},
		{"endless-new-basic-challenges", "manifest-get-digest", func(e *env) {
			n := 0
			var mu sync.Mutex
			e.up.Intercept = func(evn *modelreg.Event, w http.ResponseWriter, r *http.Request) bool {
				mu.Lock()
				n++
				k := n
				mu.Unlock()
				w.Header().Set("WWW-Authenticate", fmt.Sprintf(`Basic realm="realm-%d"`, k))
				w.WriteHeader(401)
				return true
			}
		}},
		{"endless-new-bearer-challenges", "manifest-get-digest", func(e *env) {
			n := 0
			var mu sync.Mutex
			e.up.Intercept = func(evn *modelreg.Event, w http.ResponseWriter, r *http.Request) bool {
				if evn.Kind == "token" {
					w.Header().Set("Content-Type", "application/json")
					_, _ = w.Write([]byte(`{"token":"t","expires_in":300}`))
					return true
				}
				mu.Lock()
				n++
				k := n
				mu.Unlock()
				w.Header().Set("WWW-Authenticate", fmt.Sprintf(`Bearer realm="%s/token",service="s",scope="repository:proj/app%d:pull"`, e.up.Srv.URL, k))
				w.WriteHeader(401)
				return true
			}
		}},
		{"blob-get-endless-truncation", "blob-get", func(e *env) {
			(&modelreg.Plan{Faults: []*modelreg.Fault{{Action: "cut:1", Match: func(evn *modelreg.Event) bool { return evn.Kind == "blob" && evn.Method == "GET" }}}}).Install(e.up)
		}},
	}
	all := ops()
	for _, hc := range cases {
		for _, retry := range []int{2, 5} {
			var o operation
			for _, x := range all {
				if x.name == hc.op {
					o = x
				}
			}
			e := newEnv(1, 0, true)
			hc.setup(e)
			rc := e.client(retry, time.Millisecond, 2*time.Millisecond, func() map[string]uint { return nil }())
			// user with credentials for the challenge cases
			if strings.Contains(hc.name, "challenges") {
				rc = rcx.New([]*modelreg.Host{e.up}, rcx.Opts{RetryLimit: retry, Mutate: func(name string, c *config.Host) { c.User, c.Pass = "u", "p" }})
			}
			_, err, hung := runOp(o, e, rc, 4*time.Second)
			e.w.WaitIdle()
			n := int(e.w.Requests())
			run.Eval(1)
			run.Count("hostile_cases", 1)
			run.Distinct("hostile/" + hc.name)
			wit := map[string]any{"server": hc.name, "operation": hc.op, "retry_limit": retry, "requests_received": n, "err": fmt.Sprint(err), "first_requests": reqList(e.w)}
			if hung {
				run.Violation("unbounded/"+hc.name, fmt.Sprintf("%s against server '%s' did not return even after its context expired", hc.op, hc.name), wit)
			} else if n > cap {
				run.Violation("unbounded/"+hc.name, fmt.Sprintf("%s against server '%s' issued %d requests without progress before its context expired (cap %d, retry limit %d)", hc.op, hc.name, n, cap, retry), wit)
			} else {
				if err == nil {
					run.Count("hostile_cases_finished_without_error", 1) // e.g. a documented fall-back path answered instead; termination is what counts
				}
				run.Count("hostile_cases_bounded", 1)
				run.Put("hostile_requests_"+hc.name, n)
			}
			e.w.Close()
		}
	}
}

func main() {
	run = ev.Start("C12", "fault_enumeration")
	run.Rule("(a) every single-request operation against hosts that always answer one of 9 status/connection faults, retry limits {1,2,3,5}: attempts counted at the server; (b) back-off lower bounds from server-side instants for delays 20/40 ms and a Retry-After: 1 reply, also across the completion of an older download of the same host (interleaving driven by observed events); " +
		"(c) for 16 operations x referrers API on/off: every request position of the fault-free run x 7 retryable faults x 1..limit-1 consecutive repetitions, result and raw end state compared with the fault-free run; " +
		"(d) mirror sets of 1-3 hosts with random priorities where each host has / lacks / fails the content: order of first contacts, fallback, and no state-changing request at a mirror for every mutating operation; " +
		"(e) hostile servers that never make progress (upload acknowledgements, pagination cycles of length 1-3, redirect loops, endless challenges, endless truncation): request-count cap; non-trivial = a fault fired; distinct = (operation, fault, request kind) classes")
	run.Assume("retryable = what the client documents as such (429, 408, 500, 502, 504, connection errors, truncated bodies); 503 and other 5xx are 'drop this host' by design and only used for attempt bounds",
		"timing clauses are lower bounds measured at the server: the reply instant of the failure is earlier and the arrival of the retry later than at the client, so load can only help them",
		"bounded progress: an operation exceeding 300 requests against a server that never makes progress is a violation; the 4 s context is only a safety net")
	attemptsAndBackoff()
	retryAfterAcrossSuccess()
	retryAfterNonVacuity()
	terminationAfterFailures()
	absorb()
	mirrors()
	mirrorsBackingOff()
	backingOffNonVacuity()
	mirrorIgnoringRange()
	hostile()
	for _, rep := range ev.RaceReports(filepath.Join(os.Getenv("VERIF_BIN"), "race")) {
		if strings.Contains(rep, "internal/reghttp") {
			fn := "unknown"
			for _, l := range strings.Split(rep, "\n") {
				l = strings.TrimSpace(l)
				if strings.Contains(l, "internal/reghttp.") && strings.Contains(l, "(") {
					fn = l[strings.Index(l, "reghttp.")+8 : strings.LastIndex(l, "(")]
					break
				}
			}
			run.Violation("race/reghttp/"+fn, "data race on the retry / back-off state of the HTTP layer", rep)
		} else {
			run.Count("unattributed_race_reports", 1)
		}
	}
	if run.Get("transient_fault_runs") < 500 || run.Get("attempt_bound_cases") < 50 || run.Get("mutating_ops_with_mirrors") < 20 {
		run.Inconclusive("too few fault runs")
	}
	os.Exit(run.Finish())
}
