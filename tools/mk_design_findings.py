import json
p='/verif/DESIGN.md'
s=open(p).read()
k=json.load(open('/verif/known_findings.json'))
fixed=[e for e in k if e['status']=='fixed']
known=[e for e in k if e['status']=='known']
def esc(t): return t.replace('|','\\|').replace('\n',' ')
rows_fixed=""
for e in fixed:
    what=esc(e['what'].replace('fixed: property='+e['property']+' ',''))
    c=e['commit'].split(' ')
    rows_fixed += "| %s | %s | `%s` %s |\n" % (e['property'], what, c[0], esc(' '.join(c[1:]))[:90])
rows_known=""
for e in known:
    rows_known += "| %s | `%s` | %s |\n" % (e['property'], e['fingerprint'], esc(e['what']))
tmpl=open('/verif/tools/design_findings.tmpl').read()
sec8=tmpl.replace('@FIXED@',rows_fixed).replace('@KNOWN@',rows_known)
start="## 8. Findings on the tree as it was given"
if start in s:
    a=s.index(start); b=s.index("## Appendix A")
    s=s[:a]+s[b:]
t=s.index("## Appendix A")
s=s[:t]+sec8+"\n---------------------------------------------------------------------------------------\n\n"+s[t:]
open(p,'w').write(s)
