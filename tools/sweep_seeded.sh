#!/bin/bash
# Applies every seeded change under /verif/seeded to /repo in turn, runs the check of its property, reverts.
# Writes /verif/seeded/SWEEP.md. /repo must be clean and must not be used by anything else meanwhile.
cd /verif
unset VERIF_BUILD_LOCK
out=/verif/seeded/SWEEP.md
echo "# Seeded changes vs checks (tools/sweep_seeded.sh, repo $(git -C /repo rev-parse --short HEAD), $(date -u +%F))" > $out
echo >> $out
echo "| change | property | check exit | violations | first fingerprint |" >> $out
echo "|---|---|---|---|---|" >> $out
for d in /verif/seeded/C*-m*/; do
  id=$(basename $d); prop=${id%%-*}
  # one patch at a time under the lock that checks started with VERIF_BUILD_LOCK take for their build phase
  exec 8>/tmp/verif_repo.lock; flock 8
  git -C /repo diff --quiet || { echo "/repo not clean"; exit 2; }
  if ! git -C /repo apply --check $d/patch.diff 2>/dev/null; then echo "| $id | $prop | - | - | patch does not apply to HEAD |" >> $out; flock -u 8; exec 8>&-; continue; fi
  git -C /repo apply $d/patch.diff
  res=$(./check $prop 2>&1); rc=$?
  nv=$(echo "$res" | grep -c '^VIOLATION')
  fp=$(echo "$res" | grep -m1 'detail:' | sed -E 's/.*detail: (\[[^]]*\]).*/\1/' | cut -c1-110)
  git -C /repo checkout -- .
  flock -u 8; exec 8>&-
  echo "| $id | $prop | $rc | $nv | $fp |" >> $out
done
echo >> $out
echo "exit 1 = violation reported (caught); exit 0 = not caught; exit 2 = check broken / inconclusive on the changed tree." >> $out
