#!/usr/bin/env python3
"""Regenerates /verif/MANIFEST.json from the table below (keeps it valid at all times)."""
import json, os, subprocess
ROOT = os.path.dirname(os.path.dirname(os.path.abspath(__file__)))

# id -> (category, technique, text, note, design_ref)
CHECKS = {
 "C15": ("exploration", "runtime law monitor over generated and mutated reference strings (round-trip, field-explains-input, constructive accept/reject)",
         "≈1.7 M strings per quick run (grammar walks with known expected fields, point mutations, constructive rejects, arbitrary bytes); every accepted string is checked for the round-trip law, for field validity against hand-written validators and for 'the fields spell the input'. Sampling, not proof: the regular language is infinite.",
         "Docker normalisation and the repository/tag/digest validators are re-implemented by hand in the harness (c15/main.go); SetTag/SetDigest clearing the other of tag/digest is documented behaviour.", "§3 C15"),
 "C16": ("exploration", "exhaustive runtime evaluation of selection and order laws on the real search/compare functions",
         "Exhaustive over a 40-platform universe: every requested platform x every ordered list (so every permutation) of length ≤3 over universe+nil, length-4 lists over the ≤12 compatible-or-adjacent entries, order laws on all triples, parse/print laws on the component cross product, plus ManifestGet with the platform option against the model registry. exhaustive:true refers to that universe only.",
         "'can run' is judged by the package's Compatible AND an independent oracle; a violation needs both to reject. platform.Local() is linux/amd64 here.", "§3 C16"),
 "C17": ("exploration", "in-package invariant monitor + porcupine history check + race detector over seeded concurrent scenarios; server-side running-request counter at the public API",
         "≈30 k seeded concurrent scenarios per quick run inside internal/pqueue (holder-count upper bound, quiescence invariants, state-based deadlock predicate, linearizability of acquire/release histories against a counting semaphore, coverage counters proving that the cancel-vs-release hand-over branch ran) under -race, plus image/blob copies with per-host limits 1-3 where model registries count simultaneously running requests. Held on the interleavings produced, not all interleavings.",
         "The overlay test is compiled into /repo/internal/pqueue with go test -overlay (nothing written into /repo). Holder counter under-approximates; deadlock verdicts are state based. ocidir / regsync throttles reuse the same queue type and are not driven separately.", "§3 C17"),
 "C03": ("exploration", "reference-model monitor: independent closure expectation vs raw target storage after real ImageCopy runs",
         "1.5 k seeded copies per quick run (20 k thorough) over generated image graphs x pairings x pre-states x options x registry features x latency jitter / GOMAXPROCS; after every nil return the target's raw storage (model registry state / layout files) is compared byte-for-byte with an expectation computed from the generated graph by the statement's rules. Evidence reports distinct request arrival orders seen.",
         "The model registry is harness code (raw state populated and read directly, never through the client). Requested referrers/digest-tags are required for every manifest of the source closure; descent into content stops at manifests the target already held unless force-recursive. Platform-filtered copies and sha512-without-digest-header registries are not generated.", "§3 C03"),
 "C04": ("fault_enumeration", "server-side ordering monitor at every manifest PUT + per-request-position fault enumeration with raw-state audits",
         "For 40 graphs (400 thorough) a clean run numbers the copy's requests; every position (up to 60 per graph in quick) is re-run with each of 12 fault kinds incl. context cancel and process death; children-before-parents is evaluated under the registry's state lock at every manifest PUT of every run, layout targets are audited from inside the source's request handler while the copy runs, and after every failed run the tag and repository-wide completeness are audited on raw state.",
         "Faults act before request p is applied. Process death is modelled for registry targets as 'no request numbered >= p is applied'; crash points inside layout writes belong to C07. Subject edges are excluded from children-first. Completeness after an absorbed fault is demanded for the image's own content only.", "§3 C04"),
 "C14": ("exploration", "request-log monitor at recording model registries (per-digest download/upload/mount counters) + directory fingerprint for layouts",
         "1.2 k fault-free default-option copies per quick run with arbitrary layer/config sharing, every pre-state class and pairing; each minimality clause (no download of pre-existing blobs, each blob at most once, mount instead of transfer, retag = 1 manifest PUT and no blob traffic, identical target = no write) is judged on the registries' request logs; a run is inconclusive if a clause was never applicable.",
         "Only fault-free default-option runs are judged. A blob GET counts as a download when answered 200/206 with a body.", "§3 C14"),
 "C05": ("exploration", "destination-side byte assembly monitor: committed bytes / layout file vs the caller's bytes over hostile-but-conforming upload servers",
         "12 k uploads per quick run (200 k thorough) over blob lengths on every chunk boundary x declared descriptor (absent / correct / wrong digest / short / long / size-only / digest-only) x source kinds x chunk / max-put settings (per host and client wide) x server behaviours inside the distribution spec (chunk minimum advertised and enforced, mounts, partial acknowledgement at any offset in two styles, early 201, four upload-URL relocation styles, monolithic PUT refused, one transient fault at any request); after every nil return the bytes the destination assembled are compared with the source bytes; declared mismatches must fail and leave nothing under the declared digest; well-formed uploads must succeed.",
         "The destination model is harness code in conforming mode (refuses out-of-order chunks with 416+Range, refuses truncated request bodies, verifies the digest at commit). Excluded from must-succeed: non-seekable sources after a refusal/fault, first chunk lost before anything was stored (Range: 0-0 ambiguity), server minimum above the client's limit.", "§3 C05"),
 "C12": ("fault_enumeration", "server-side request counting / timing lower bounds / result-and-state comparison with the fault-free run, over enumerated fault positions and hostile servers",
         "(a) attempt bound for every single-request operation against hosts that always fail in one of 9 ways, retry limits 1/2/3/5; (b) back-off and Retry-After lower bounds from server-side instants; (c) 16 operations x referrers API on/off x every request position x 7 retryable faults x 1..limit-1 repetitions, result and raw end state compared with the fault-free run; (d) 150 mirror sets (1.5 k thorough) with random priorities and has/lacks/fails hosts: contact order, fallback, no state-changing request at a mirror for any mutating operation; (e) 10 hostile never-progressing servers with a request-count cap; race-detector reports in internal/reghttp are attributed to this property.",
         "Retryable = the class the client documents (429 408 500 502 504, connection errors, truncated blob bodies from a range-capable endpoint). Timing clauses are lower bounds only. Two genuine defects are recorded as known findings (ascending mirror priority; referrers probe not absorbing transient faults).", "§3 C12"),
 "C11": ("exploration", "taint-style monitor: unique random secrets, full request capture at every model host (URL, headers, body; raw / URL-decoded / base64), clear-text sniffing on TLS listeners, log scanning",
         "220 seeded topologies per quick run (3 k thorough) of 2-5 hosts on distinct loopback addresses with distinct credentials (upstream, mirror, second registry, blob-redirect target, external-layer host, separate token endpoints) x auth schemes x plain / pinned TLS / insecure TLS x per-repository auth x extra and malformed challenges; 17 operations per topology incl. cross-registry copies with referrers and external layers; every request every host received is scanned for every other host's secrets, TLS listeners record clear text, trace-level library logs and regctl -v trace output are scanned.",
         "A host may see the secrets of Y only if it is Y or the token endpoint Y itself named. Leaks are fingerprinted by mechanism (after a challenge from the receiver / unsolicited), owner role, receiver role and request kind; the credential hand-over to challenging redirect targets / external hosts is a recorded known finding.", "§3 C11"),
 "C01": ("exploration", "two-ended byte-stream monitor: the harness chooses the served bytes, accumulates what the caller received and applies 'clean EOF => digest and size match'",
         "≈165 k reads per quick run: blob.NewReader over scripted readers exhaustively for content lengths 0..20 (0..40 thorough: every truncation offset, a bit flip per byte, extra bytes, substitution, wrong stated size x 4 reader return styles x 9 buffer sequences x sha256/sha512 x size known/unknown, each with rewind and re-read), sampled to 70 KB; 2.5 k registry reads with wrong Content-Length, 0-4 mid-body drops and five resume behaviours, redirects, inline data, host concurrency 1/3/8; 400 corrupted layout blobs.",
         "Clean completion = the final error is exactly io.EOF (what io.ReadAll / io.Copy test). A read that only returns once the harness' 30 s context expired counts as 'neither completed nor failed' (logical criterion: context state at return).", "§3 C01"),
 "C13": ("exploration", "independent well-formedness auditor over the target's raw storage and request log after real mod.Apply / regctl image mod runs",
         "≈340 cases per quick run (3.4 k thorough): 56 fixed core cases, 250 seeded option programs of 0-5 options over all 37 option kinds, 32 regctl runs; sources with real tar layers (gzip / zstd / none), configs with matching diff_ids and history incl. empty_layer entries, single images, indexes, referrers, Docker and OCI types; targets same repo / other tag / other repo / other registry / layout. Every manifest written (target request log + closure of the returned reference) is audited from raw bytes: descriptor digest/size vs content, inline data, diff_ids vs uncompressed layers, history vs layers, index entries vs rewritten children, subject; source raw state and tag unchanged; no-op programs keep the digest; same program twice (in process, and across two regctl processes with SOURCE_DATE_EPOCH) gives one digest. Violations are minimised before they are reported.",
         "Errors returned by mod.Apply are counted, not judged. Media-type vs actual compression mismatches are notes only. The cached-client family (shared manifest cache, S13) is attributed to C02.", "§3 C13"),
 "C18": ("exploration", "full raw-state before/after comparison of both model registries around real `regsync once` / `regsync check` runs, selection computed by the harness' own filter model",
         "500 generated configurations per quick run (6.5 k thorough), 1-3 consecutive runs each as source tags move: image / repository / registry entries, allow+deny lists (anchored sub-language), platform, media-type lists, three backup template forms, referrers, digest tags, fast-check / force-recursive, parallel 1-4; every selected tag must exist at the target with the source (or platform) digest and a complete closure (C03 oracle), every other tag / repository / manifest of the target and the whole source must be unchanged, backups must resolve and precede the overwrite in the target's log, check-only runs must cause no state-changing request.",
         "The regex sub-language has no top-level alternation so that anchoring is unambiguous. Judged on raw registry state and request logs only; the package does not import regclient.", "§3 C18"),
 "C19": ("exploration", "request-method monitor at model registries + recursive file-system snapshots around real `regbot once --dry-run` runs of generated Lua scripts",
         "240 generated configurations per quick run (3 k thorough) of 1-5 scripts covering all 39 sandbox bindings (census of the binary's sandbox: an unknown binding makes the run inconclusive) in random control flow incl. pcall, error(), runtime errors; registries and layouts already holding images; monitors: no non-GET/HEAD request, no layout file created / modified / removed (path, mode, size, sha256, mtime), read-only scripts log the same results as in a normal run on the verified-unchanged world, a failing script stops and the others reach their end marker.",
         "Each repository / layout is the target of at most one state-changing binding per configuration so that an effect can be attributed. image.exportTar writing its named output file is outside the statement (counted).", "§3 C19"),
 "C20": ("exploration", "guard-directory snapshot monitor (lstat + sha256 + link target + mtime of everything outside the designated directory) plus strace write tracing, around hostile inputs",
         "≈3.9 k cases per quick run (49 k thorough): regctl artifact get with hostile title annotations and hostile unpacked tars (with/without --strip-dirs), regctl image import and layout commands, archive.Extract, the tar reader, ImageImport, and 36 ocidir operations (through RegClient and OCIDir) with escaping digests / tags / descriptors and layouts whose index or manifests carry them; any create / modify / delete / mtime change outside the designated directory is a violation; reads outside are counted only.",
         "Every hostile path, under every reading (absolute, relative to output dir / cwd / layout, NUL-cut, decoded separators), is asserted to resolve inside the guard tree below $VERIF_BIN before it is used; the check never names a path outside $VERIF_BIN. Runs without -race (file-system property).", "§3 C20"),
 "C02": ("exploration", "fetch oracle with the harness' own hashes + byte comparison of re-pushed bodies at a recording registry + per-setter equation monitor with re-parse and independent JSON decode",
         "≈62 k cases per quick run: 40 k manifest.New calls over generated texts of all seven manifest types x digest sources (reference / descriptor / header / none, right or wrong) x sha256/sha512 x Content-Type right/wrong/absent; 1.5 k registry fetches (by tag / digest, registry serving other bytes under the name, lying or absent digest header, cache on/off) each followed by a re-push whose PUT body is compared byte for byte; 300 layout fetches; 20 k setter programs of 0-6 calls with the equation (descriptor = hash/len of MarshalJSON = RawBody, media type unchanged, serialisation parses back to every getter) checked after every call; 300 get / edit / get-again histories with the response cache on and off.",
         "At most one requester-side digest source per case (contradictory caller input is a caller error). Signed schema1 is named by its JWS payload digest (fixture from the repository's own tests).", "§3 C02"),
 "C06": ("exploration", "reference-model monitor (map tag->digest + manifest set) stepped alongside the client with raw-state comparison after every mutation; porcupine linearizability check of concurrent histories",
         "3 k sequential histories per quick run (40 k thorough) of 4-25 operations over 4 tags x 4 manifests on model registries (tag-delete API on / off, tag-list page size 1/2/3/unlimited), fresh layouts and layouts written by other tools (full image names, adjacent / non-adjacent duplicates, untagged entries, containerd names): every returned value / error class and, after every mutation, the raw stored tags (registry state / parsed index.json incl. layout validity and per-tag entry counts) are compared with the model; 1.2 k concurrent histories of 3-4 goroutines through one client with unique manifests per push, layouts checked with porcupine against a register per tag, under -race.",
         "Model equivalences as in DESIGN Appendix B. Registries are not checked for linearizability: a tag delete that meets 404 falls back to the documented non-atomic protocol even when the API exists. Pushes of a short tag next to a foreign full-named entry of the same tag are not generated (ambiguous under the two-step lookup).", "§3 C06"),
 "C10": ("exploration", "reference-model monitor (multimap subject -> referrers with artifactType and annotations) with raw fallback-tag comparison; deterministic quiescent expectation for concurrent updates under server-side delays",
         "4 k sequential histories per quick run (50 k thorough) of 4-20 operations {push artifact, referrer-aware delete, list unfiltered / by artifactType / by annotation} over 3 subjects (one never stored), image and index referrers, referrers of referrers, re-pushes, deletion of the last referrer, on registries with the referrers API (page size unlimited/1/2, server-side filter), without it (fallback tag, with and without tag-delete API), response cache on/off, and layouts; after every mutation the raw fallback-tag content is compared too; 1.5 k concurrent runs of 2-4 simultaneous pushes / deletes of distinct artifacts of one subject through one client while the model server delays the fallback-tag GET/PUT (exactly between the client's read and write), compared with the quiescent expectation through raw state, a fresh client and the same (caching) client; -race.",
         "Comparison is on {digest, artifactType, annotations} as a set. Concurrent runs in which a call returned an error are not judged.", "§3 C10"),
}
NOT_APPLICABLE = {}

def main():
    props = [json.loads(l)["id"] for l in open(os.path.join(ROOT, "properties.jsonl"))]
    hooks = []
    try:
        out = subprocess.run(["git", "-C", "/repo", "log", "--format=%H %s"], capture_output=True, text=True).stdout
        hooks = [l.split()[0] for l in out.splitlines() if " verif:" in l or " hook:" in l]
    except Exception:
        pass
    checks = []
    for pid in props:
        if pid not in CHECKS:
            continue
        cat, tech, text, note, dref = CHECKS[pid]
        checks.append({
            "property_id": pid,
            "quick_cmd": f"./check {pid} --tier quick",
            "thorough_cmd": f"./check {pid} --tier thorough",
            "evidence_file": f"/verif/evidence/{pid}.json",
            "replay_cmd_template": f"./check {pid} --replay {{path}}",
            "engine": "verif-harness",
            "level_claimed": {"category": cat, "text": text, "design_ref": dref},
            "level_note": note,
            "technique": tech,
        })
    na = [{"property_id": pid, "reason": NOT_APPLICABLE.get(pid, "check not built yet in this round (planned, see DESIGN.md §3)")}
          for pid in props if pid not in CHECKS]
    m = {
        "version": 1,
        "setup_cmd": "cd /verif && ./setup.sh",
        "hooks": {
            "guard": "verif",
            "enable": "go build -tags verif (every check passes -tags verif when it rebuilds /repo and the harness)",
            "baseline_off_cmd": "cd /repo && GOFLAGS=-mod=mod GOPROXY=off GOSUMDB=off go test -mod=mod -json -vet=off -count=1 -timeout 25m ./...",
            "source_commits": hooks,
            "add_only": True,
        },
        "engines": [{"name": "verif-harness", "path": "/verif/harness", "serves_properties": [c["property_id"] for c in checks],
                     "kind_free_text": "Go module: recording/hostile model registry, independent layout/closure auditor, seeded generators, per-property runtime monitors; built and run by /verif/check with the race detector"}],
        "checks": checks,
        "notes": "Runtime monitoring only. Every check rebuilds the harness (and any CLI it drives) from /repo's working tree with -tags verif. Exit 2 of ./check means broken/inconclusive, never 'held'. Known findings: /verif/known_findings.json.",
        "not_applicable": na,
    }
    json.dump(m, open(os.path.join(ROOT, "MANIFEST.json"), "w"), indent=1, ensure_ascii=False)
    print("wrote MANIFEST.json with", len(checks), "checks;", len(na), "not applicable")

if __name__ == "__main__":
    main()
