# fills the round-2 table of DESIGN.md §9.1 from seeded/*-r2-*/meta.json and notes.md
import json,glob,re
rows=[];n=0;c=0
for p in sorted(glob.glob('/verif/seeded/*-r[23456]-m*/meta.json')):
    m=json.load(open(p)); d=p.rsplit('/',1)[0]
    try:
        first=[l for l in open(d+'/notes.md').read().split('\n') if l.strip()][0]
    except Exception: first=''
    first=re.sub(r'^#+\s*','',first); first=re.sub(r'^(C\d\d(-r\d)?\s*/\s*)?(extra_)?m\d\s*(\([^)]*\))?\s*[-:–—]+\s*','',first).replace('|','\\|')[:150]
    by=m.get('detected_by','?'); note=m.get('detection_note','')
    added=''
    mm=re.search(r'(needed .*|.* added for this change.*|.*were added.*|.*was added.*)',note)
    if mm: added=mm.group(1).replace('|','\\|')[:200]
    n+=1
    if by and not by.startswith('filled') and by not in ('none','-'): c+=1
    rows.append('| %s | %s | %s | %s |'%(m['id'],first,by,added or '-'))
for target in ('/verif/tools/design_findings.tmpl','/verif/DESIGN.md'):
    s=open(target).read()
    if '| change | what it does | caught by | what had to be added first |' not in s:
        continue
    a=s.index('| change | what it does | caught by | what had to be added first |')
    b=s.index('\n\n',a)
    hdr='| change | what it does | caught by | what had to be added first |\n|---|---|---|---|\n'
    s=s[:a]+hdr+'\n'.join(rows)+s[b:]
    s=re.sub(r'\(`detected_by` / `detection_note` in each `meta.json`; [^)]*\)','(`detected_by` / `detection_note` in each `meta.json`; %d of %d caught)'%(c,n),s)
    open(target,'w').write(s)
print(n,c)
