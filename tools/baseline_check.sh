#!/bin/bash
# Runs the repository's test suite with the hook guard OFF and compares with /root/.vp/BASELINE.json (stable_pass).
export GOFLAGS=-mod=mod GOPROXY=off GOSUMDB=off GOTOOLCHAIN=local
cd /repo && go test -mod=mod -json -vet=off -count=1 -timeout 25m ./... > /tmp/baseline_run.json 2>/tmp/baseline_run.err
python3 - <<'PY'
import json
base=json.load(open('/root/.vp/BASELINE.json'))
want=set(base['stable_pass'])
got={}
for l in open('/tmp/baseline_run.json'):
    try: e=json.loads(l)
    except Exception: continue
    if e.get('Test') and e.get('Action') in('pass','fail','skip'):
        got[e['Package']+'::'+e['Test']]=e['Action']
missing=[t for t in want if got.get(t)!='pass']
print('stable_pass',len(want),'passed now',sum(1 for t in want if got.get(t)=='pass'),'NOT passing',len(missing))
for t in missing[:30]: print('  ',t,got.get(t))
PY
