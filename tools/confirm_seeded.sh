#!/bin/bash
# usage: confirm_seeded.sh <Cxx> <mK>   — confirms a sub-agent's seeded change in a scratch worktree and
# stores it under /verif/seeded/<Cxx>-<mK>/ (patch.diff, demo, meta.json). Removes the worktree afterwards.
set -u
ID=$1; M=$2
export GOFLAGS=-mod=mod GOPROXY=off GOSUMDB=off GOTOOLCHAIN=local
OUT=/tmp/mut/$ID-out
WT=/tmp/confirm/$ID-$M
DST=/verif/seeded/$ID-$M
mkdir -p /tmp/confirm "$DST"
git -C /repo worktree remove --force "$WT" 2>/dev/null
git -C /repo worktree add --detach "$WT" HEAD >/dev/null 2>&1 || { echo "worktree failed"; exit 2; }
cd "$WT"
demo=$(ls $OUT/${M}_demo* 2>/dev/null | head -1)
[ -z "$demo" ] && { echo "no demo for $ID $M"; exit 2; }
# where does the demo go? header comment names the directory; detect the package clause as a fallback
pkgline=$(grep -m1 '^package ' "$demo" | awk '{print $2}')
dir=$(grep -m1 -oiE '(place[d]? (it )?in|directory|package)[^\n]*' "$demo" | head -1)
case "$pkgline" in
  regclient) sub=. ;;
  reg) sub=scheme/reg ;;
  ocidir) sub=scheme/ocidir ;;
  mod) sub=mod ;;
  reghttp) sub=internal/reghttp ;;
  pqueue) sub=internal/pqueue ;;
  ref) sub=types/ref ;;
  platform) sub=types/platform ;;
  manifest) sub=types/manifest ;;
  blob) sub=types/blob ;;
  descriptor) sub=types/descriptor ;;
  auth) sub=internal/auth ;;
  archive) sub=pkg/archive ;;
  sandbox) sub=cmd/regbot/sandbox ;;
  main) sub=$(grep -m1 -oE 'cmd/(regctl|regsync|regbot)' "$demo" | head -1) ;;
  *) sub=$(grep -m1 -oE '(scheme|internal|types|cmd|pkg|mod)(/[a-z0-9]+)+' "$demo" | head -1) ;;
esac
hdr=$(grep -m1 -oE "place in: *[^ ]+" "$demo" | sed -E "s/place in: *//; s#^\./##; s#/$##")
[ -n "$hdr" ] && [ -d "$hdr" ] && sub=$hdr
[ -n "${DEMO_DIR:-}" ] && sub=$DEMO_DIR
[ -z "$sub" ] && sub=.
run=$(grep -m1 -oE "\-run[ =]'?[A-Za-z0-9_^\$|/]+" "$demo" | sed -E "s/-run[ =]'?//")
[ -n "${DEMO_RUN:-}" ] && run=$DEMO_RUN
case "$run" in Test*|^Test*|.) ;; *) run=$(grep -m1 -oE "^func (Test[A-Za-z0-9_]+)" "$demo" | sed -E 's/^func //') ;; esac
[ -z "$run" ] && run=.
cp "$demo" "$sub/zz_seeded_demo_test.go"
clean_res=$(go test -vet=off -count=1 -run "$run" "./$sub" 2>&1 | tail -3)
clean_ok=$?; echo "$clean_res" | grep -q '^ok' && clean_ok=0 || clean_ok=1
git apply "$OUT/$M.diff" || { echo "patch does not apply to HEAD"; applied=no; }
go build ./... > /tmp/confirm/$ID-$M.build 2>&1; build_ok=$?
mut_res=$(go test -vet=off -count=1 -run "$run" "./$sub" 2>&1 | tail -5)
echo "$mut_res" | grep -q '^ok' && mut_ok=0 || mut_ok=1
rm -f "$sub/zz_seeded_demo_test.go"
# full suite with the change
go test -vet=off -count=1 ./... 2>&1 | grep -E '^(ok|FAIL|---)' > /tmp/confirm/$ID-$M.suite
suite_fail=$(grep -E '^(--- FAIL|FAIL[[:space:]]+[^[:space:]]+)' /tmp/confirm/$ID-$M.suite | grep -v ExampleNew | grep -v -P '^FAIL\tgithub.com/regclient/regclient\t' | tr '\n' ';')
cp "$OUT/$M.diff" "$DST/patch.diff"
cp "$demo" "$DST/$(basename $demo)"
[ -f "$OUT/$M.md" ] && cp "$OUT/$M.md" "$DST/notes.md"
python3 - "$ID" "$M" "$sub" "$run" "$clean_ok" "$mut_ok" "$build_ok" "$suite_fail" <<'PY'
import json,sys,subprocess
id,m,sub,run,clean_ok,mut_ok,build_ok,suite_fail=sys.argv[1:9]
head=subprocess.run(["git","-C","/repo","rev-parse","--short","HEAD"],capture_output=True,text=True).stdout.strip()
notes=""
try: notes=open(f"/tmp/mut/{id}-out/{m}.md").read()
except Exception: pass
meta={"property":id,"id":f"{id}-{m}","base_commit":head,"demo_dir":sub,"demo_run":run,
 "confirmed":{"builds":build_ok=="0","demo_passes_without_change":clean_ok=="0","demo_fails_with_change":mut_ok!="0","existing_suite_failures_with_change":suite_fail or "none (only the baseline ExampleNew failure)"},
 "what_i_ran":[f"git worktree add /tmp/confirm/{id}-{m} HEAD","demo placed in "+sub+" and run with go test -vet=off -count=1 -run "+run+" (clean tree, then with patch)","go build ./...","go test -vet=off -count=1 ./... with the patch"],
 "needs_to_manifest":"see notes.md (written by the sub-agent that produced the change)","detected_by":"filled in by tools/run_seeded.sh"}
json.dump(meta,open(f"/verif/seeded/{id}-{m}/meta.json","w"),indent=1)
print(id,m,"builds",build_ok=="0","clean_demo_ok",clean_ok=="0","mut_demo_fails",mut_ok!="0","suite_fail:",suite_fail or "none")
PY
cd /; git -C /repo worktree remove --force "$WT"
