#!/bin/bash
# usage: run_seeded.sh <patch.diff> <Cxx> [<Cyy> ...] — applies a seeded change to /repo, runs the checks, reverts.
P=$1; shift
# holds the lock that checks started with VERIF_BUILD_LOCK=/tmp/verif_repo.lock take for their build phase
exec 8>/tmp/verif_repo.lock; flock 8
unset VERIF_BUILD_LOCK
cd /repo && git diff --quiet || { echo "/repo not clean"; exit 2; }
git apply "$P" || { git apply -3 "$P" || { echo "PATCH DOES NOT APPLY"; exit 2; }; }
for c in "$@"; do
  out=$(cd /verif && ./check $c 2>&1); rc=$?
  echo "== $c exit=$rc $(echo "$out" | grep -c '^VIOLATION') violations; $(echo "$out" | grep -m1 'detail:' | cut -c1-220)"
done
git -C /repo checkout -- . ; git -C /repo status --short | head -3
