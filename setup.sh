#!/bin/bash
# Builds the framework offline from files on disk (module cache only).
set -e
cd "$(dirname "$0")/harness"
export GOFLAGS=-mod=mod GOPROXY=off GOSUMDB=off GOTOOLCHAIN=local
cat /repo/go.sum go.sum.extra | sort -u > go.sum
go build ./... 
echo "setup ok"
