package pqueue

// Injected into /repo/internal/pqueue with `go test -overlay` by /verif/check (C17).
// Self-contained: writes a JSON result file that the C17 driver merges into the evidence.

import (
	"context"
	"encoding/json"
	"fmt"
	"math/rand"
	"os"
	"runtime"
	"sort"
	"strconv"
	"strings"
	"sync"
	"sync/atomic"
	"testing"
	"time"

	"github.com/anishathalye/porcupine"

	"github.com/regclient/regclient/internal/reqmeta"
)

type vViolation struct {
	Fingerprint string `json:"fingerprint"`
	What        string `json:"what"`
	Witness     any    `json:"witness"`
}

type vResult struct {
	Evaluations  int64            `json:"evaluations"`
	Distinct     []string         `json:"distinct"`
	Samples      []any            `json:"samples"`
	Counters     map[string]int64 `json:"counters"`
	Violations   []vViolation     `json:"violations"`
	Inconclusive []string         `json:"inconclusive"`
}

var (
	vres   = vResult{Counters: map[string]int64{}}
	vmu    sync.Mutex
	vdist  = map[string]bool{}
	vclock atomic.Int64
)

func vcount(k string, n int64) { vmu.Lock(); vres.Counters[k] += n; vmu.Unlock() }
func vviol(fp, what string, w any) {
	vmu.Lock()
	if len(vres.Violations) < 50 {
		vres.Violations = append(vres.Violations, vViolation{fp, what, w})
	}
	vmu.Unlock()
}

type step struct {
	Op     string // acq try multi acqcancel
	Q      []int  // queue indexes (multi: several, in this order)
	Cancel string // "", "before", "during"
	Kind   reqmeta.Kind
	Size   int64
}

type scenario struct {
	Seed     int64
	Max      []int
	SizeNext bool
	Progs    [][]step
	Procs    int
}

func (s scenario) key() string {
	ops := map[string]int{}
	for _, p := range s.Progs {
		for _, st := range p {
			ops[st.Op+st.Cancel]++
		}
	}
	ks := []string{}
	for k, n := range ops {
		ks = append(ks, k+strconv.Itoa(n))
	}
	sort.Strings(ks)
	return fmt.Sprintf("q%v/g%d/next%t/%s", s.Max, len(s.Progs), s.SizeNext, strings.Join(ks, ","))
}

func genScenario(rng *rand.Rand) scenario {
	s := scenario{Seed: rng.Int63(), SizeNext: rng.Intn(2) == 0, Procs: []int{1, 2, 4, 16}[rng.Intn(4)]}
	nq := 1 + rng.Intn(3)
	for i := 0; i < nq; i++ {
		s.Max = append(s.Max, 1+rng.Intn(3))
	}
	ng := 2 + rng.Intn(4)
	for g := 0; g < ng; g++ {
		var prog []step
		for k := 0; k <= rng.Intn(3); k++ {
			st := step{Kind: reqmeta.Kind(rng.Intn(5)), Size: []int64{0, 10, 5 << 20, 100 << 20}[rng.Intn(4)]}
			switch r := rng.Intn(10); {
			case r < 4:
				st.Op, st.Q = "acq", []int{rng.Intn(nq)}
			case r < 5:
				st.Op, st.Q = "try", []int{rng.Intn(nq)}
			case r < 8:
				st.Op = "multi"
				perm := rng.Perm(nq)
				st.Q = perm[:1+rng.Intn(nq)]
				if rng.Intn(5) == 0 {
					st.Q = append(st.Q, st.Q[0]) // duplicate entry
				}
			default:
				st.Op, st.Q = "acq", []int{rng.Intn(nq)}
				st.Cancel = []string{"before", "during"}[rng.Intn(2)]
			}
			prog = append(prog, st)
		}
		s.Progs = append(s.Progs, prog)
	}
	return s
}

type hop struct {
	Q   int
	Op  string // acq rel try
	OK  bool
	G   int
}

// runScenario executes one scenario and applies every monitor. Returns false if it had to be abandoned.
func runScenario(s scenario, withPorcupine bool) {
	runtime.GOMAXPROCS(s.Procs)
	defer runtime.GOMAXPROCS(16)
	qs := make([]*Queue[reqmeta.Data], len(s.Max))
	for i, m := range s.Max {
		o := Opts[reqmeta.Data]{Max: m}
		if s.SizeNext {
			o.Next = reqmeta.DataNext
		}
		qs[i] = New(o)
	}
	holders := make([]atomic.Int32, len(qs))
	var histMu sync.Mutex
	var hist []porcupine.Operation
	record := func(g, q int, op string, call int64, ok bool) {
		ret := vclock.Add(1)
		histMu.Lock()
		hist = append(hist, porcupine.Operation{ClientId: g, Input: hop{Q: q, Op: op, G: g}, Call: call, Output: ok, Return: ret})
		histMu.Unlock()
	}
	// status per goroutine: 0 running, 1 inside an acquire call, 2 done
	status := make([]atomic.Int32, len(s.Progs))
	enter := func(g, q int) {
		n := holders[q].Add(1)
		if int(n) > s.Max[q] {
			vviol("limit-exceeded", fmt.Sprintf("queue with max %d had %d simultaneous holders", s.Max[q], n), s)
		}
	}
	var wg sync.WaitGroup
	var helpers sync.WaitGroup
	for g, prog := range s.Progs {
		wg.Add(1)
		go func(g int, prog []step) {
			defer wg.Done()
			defer status[g].Store(2)
			rng := rand.New(rand.NewSource(s.Seed + int64(g)))
			for _, st := range prog {
				e := reqmeta.Data{Kind: st.Kind, Size: st.Size}
				switch st.Op {
				case "acq":
					ctx, cancel := context.WithCancel(context.Background())
					q := st.Q[0]
					switch st.Cancel {
					case "before":
						cancel()
					case "during":
						helpers.Add(1)
						yields := rng.Intn(20)
						go func() {
							defer helpers.Done()
							for i := 0; i < yields; i++ {
								runtime.Gosched()
							}
							cancel()
						}()
					}
					call := vclock.Add(1)
					status[g].Store(1)
					done, err := qs[q].Acquire(ctx, e)
					status[g].Store(0)
					if err != nil {
						if done != nil {
							vviol("cancelled-acquire-returned-release", "Acquire returned both an error and a release function", s)
						}
						if st.Cancel == "" {
							vviol("acquire-error", "Acquire without cancellation failed: "+err.Error(), s)
						}
						record(g, q, "acq", call, false)
						vcount("cancelled_acquires", 1)
						cancel()
						continue
					}
					enter(g, q)
					record(g, q, "acq", call, true)
					vcount("acquires", 1)
					for i := 0; i < rng.Intn(4); i++ {
						runtime.Gosched()
					}
					holders[q].Add(-1)
					call = vclock.Add(1)
					done()
					record(g, q, "rel", call, true)
					cancel()
				case "try":
					q := st.Q[0]
					call := vclock.Add(1)
					done, err := qs[q].TryAcquire(context.Background(), e)
					if err != nil {
						vviol("tryacquire-error", err.Error(), s)
						continue
					}
					if done == nil {
						record(g, q, "try", call, false)
						vcount("try_failed", 1)
						continue
					}
					enter(g, q)
					record(g, q, "try", call, true)
					vcount("try_ok", 1)
					runtime.Gosched()
					holders[q].Add(-1)
					call = vclock.Add(1)
					done()
					record(g, q, "rel", call, true)
				case "multi":
					var list []*Queue[reqmeta.Data]
					for _, qi := range st.Q {
						list = append(list, qs[qi])
					}
					call := vclock.Add(1)
					status[g].Store(1)
					ctx, done, err := AcquireMulti(context.Background(), e, list...)
					status[g].Store(0)
					if err != nil {
						vviol("multi-error", "AcquireMulti failed: "+err.Error(), s)
						continue
					}
					uniq := map[int]bool{}
					for _, qi := range st.Q {
						if !uniq[qi] {
							uniq[qi] = true
							enter(g, qi)
							record(g, qi, "acq", call, true)
						}
					}
					vcount("multi_acquires", 1)
					// a nested acquire on a member with the returned context must succeed at once
					if d2, err := qs[st.Q[0]].Acquire(ctx, e); err != nil || d2 == nil {
						vviol("multi-nested", fmt.Sprintf("Acquire inside a multi transaction failed: %v", err), s)
					} else {
						d2()
					}
					for i := 0; i < rng.Intn(4); i++ {
						runtime.Gosched()
					}
					for qi := range uniq {
						holders[qi].Add(-1)
					}
					call = vclock.Add(1)
					done()
					for qi := range uniq {
						record(g, qi, "rel", call, true)
					}
				}
			}
		}(g, prog)
	}
	fin := make(chan struct{})
	go func() { wg.Wait(); helpers.Wait(); close(fin) }()
	// bounded progress, decided on state: if every unfinished goroutine sits inside an acquire
	// call, nobody can ever release, so the state is permanent.
	stuckRounds := 0
	for waited := 0; ; waited++ {
		select {
		case <-fin:
			goto quiescent
		case <-time.After(time.Millisecond):
		}
		if waited < 200 {
			continue
		}
		allBlocked := true
		for g := range status {
			if status[g].Load() == 0 {
				allBlocked = false
			}
		}
		if allBlocked {
			stuckRounds++
		} else {
			stuckRounds = 0
		}
		if stuckRounds >= 300 {
			st := []string{}
			for i, q := range qs {
				q.mu.Lock()
				st = append(st, fmt.Sprintf("q%d max=%d active=%d queued=%d", i, q.max, len(q.active), len(q.queued)))
				q.mu.Unlock()
			}
			vviol("deadlock", "all unfinished goroutines are parked inside Acquire/AcquireMulti and no holder is running: "+strings.Join(st, "; "), s)
			return
		}
		if waited > 60000 {
			vmu.Lock()
			vres.Inconclusive = append(vres.Inconclusive, "scenario did not finish within the watchdog but goroutines were not all blocked: "+s.key())
			vmu.Unlock()
			return
		}
	}
quiescent:
	for i, q := range qs {
		q.mu.Lock()
		a, w := len(q.active), len(q.queued)
		q.mu.Unlock()
		if a != 0 || w != 0 {
			vviol("quiescent-nonempty", fmt.Sprintf("all callers finished but queue %d has active=%d queued=%d", i, a, w), s)
		}
		var rel []func()
		for k := 0; k < s.Max[i]; k++ {
			d, err := q.TryAcquire(context.Background(), reqmeta.Data{})
			if d == nil || err != nil {
				vviol("slot-lost", fmt.Sprintf("all callers finished but only %d of %d slots of queue %d can be taken", k, s.Max[i], i), s)
				break
			}
			rel = append(rel, d)
		}
		if d, _ := q.TryAcquire(context.Background(), reqmeta.Data{}); d != nil {
			vviol("limit-exceeded", fmt.Sprintf("queue %d admitted %d holders with max %d", i, s.Max[i]+1, s.Max[i]), s)
			d()
		}
		for _, d := range rel {
			d()
		}
	}
	if withPorcupine {
		checkHistory(s, hist)
	}
}

func checkHistory(s scenario, hist []porcupine.Operation) {
	model := porcupine.Model{
		Partition: func(h []porcupine.Operation) [][]porcupine.Operation {
			m := map[int][]porcupine.Operation{}
			for _, o := range h {
				m[o.Input.(hop).Q] = append(m[o.Input.(hop).Q], o)
			}
			var out [][]porcupine.Operation
			for _, v := range m {
				out = append(out, v)
			}
			return out
		},
		Init: func() any { return 0 },
		Step: func(state, in, out any) (bool, any) {
			n := state.(int)
			i := in.(hop)
			ok := out.(bool)
			max := s.Max[i.Q]
			switch i.Op {
			case "acq", "try":
				if !ok {
					return true, n // cancelled acquire / failed try: no effect (a failed try is always legal)
				}
				return n < max, n + 1
			case "rel":
				return n > 0, n - 1
			}
			return false, n
		},
		Equal: func(a, b any) bool { return a.(int) == b.(int) },
	}
	res := porcupine.CheckOperationsTimeout(model, hist, 20*time.Second)
	switch res {
	case porcupine.Ok:
		vcount("porcupine_ok", 1)
	case porcupine.Illegal:
		vcount("porcupine_illegal", 1)
		vviol("history-not-linearizable", "acquire/release history is not linearizable against a counting semaphore", map[string]any{"scenario": s, "ops": len(hist)})
	default:
		vcount("porcupine_unknown", 1)
	}
}

// raceScenario: cancellation racing with release on a full queue.
func raceScenario(rng *rand.Rand, max int, order int, procs int, sizeNext bool) {
	runtime.GOMAXPROCS(procs)
	defer runtime.GOMAXPROCS(16)
	o := Opts[reqmeta.Data]{Max: max}
	if sizeNext {
		o.Next = reqmeta.DataNext
	}
	q := New(o)
	var rel []func()
	for i := 0; i < max; i++ {
		d, err := q.Acquire(context.Background(), reqmeta.Data{Kind: reqmeta.Blob, Size: 10})
		if err != nil {
			vviol("acquire-error", err.Error(), nil)
			return
		}
		rel = append(rel, d)
	}
	nw := 1 + rng.Intn(2)
	type wres struct {
		done func()
		err  error
	}
	out := make(chan wres, nw)
	cancels := make([]context.CancelFunc, nw)
	for i := 0; i < nw; i++ {
		ctx, cancel := context.WithCancel(context.Background())
		cancels[i] = cancel
		go func() {
			d, err := q.Acquire(ctx, reqmeta.Data{Kind: reqmeta.Manifest, Size: 1})
			out <- wres{d, err}
		}()
	}
	// wait (on state, not time) until all waiters are parked
	for spins := 0; ; spins++ {
		q.mu.Lock()
		n := len(q.queued)
		q.mu.Unlock()
		if n == nw {
			break
		}
		runtime.Gosched()
		if spins > 50_000_000 {
			vmu.Lock()
			vres.Inconclusive = append(vres.Inconclusive, "waiters never parked")
			vmu.Unlock()
			return
		}
	}
	switch order {
	case 0: // cancel then release, back to back
		cancels[0]()
		rel[0]()
	case 1: // release then cancel
		rel[0]()
		cancels[0]()
	case 2: // from two goroutines released together
		var sw sync.WaitGroup
		start := make(chan struct{})
		sw.Add(2)
		go func() { defer sw.Done(); <-start; cancels[0]() }()
		go func() { defer sw.Done(); <-start; rel[0]() }()
		close(start)
		sw.Wait()
	}
	rel = rel[1:]
	// remaining holders release; remaining waiters are cancelled only after that, so that each of
	// them must have been admitted: holders released = max, waiters = nw <= 2
	for _, d := range rel {
		d()
	}
	got := 0
	for i := 0; i < nw; i++ {
		var r wres
		select {
		case r = <-out:
		case <-time.After(20 * time.Second):
			// decide on state: a waiter is queued although slots are free and nobody holds any
			q.mu.Lock()
			a, w := len(q.active), len(q.queued)
			q.mu.Unlock()
			if w > 0 && a < max {
				vviol("lost-wakeup", fmt.Sprintf("waiter still queued after all holders released (active=%d queued=%d max=%d, order=%d)", a, w, max, order), map[string]any{"max": max, "order": order, "waiters": nw})
			} else {
				vmu.Lock()
				vres.Inconclusive = append(vres.Inconclusive, "race scenario watchdog")
				vmu.Unlock()
			}
			return
		}
		if r.err != nil && r.done != nil {
			vviol("cancelled-acquire-returned-release", "Acquire returned both an error and a release function", nil)
		}
		if r.err == nil {
			got++
			if r.done == nil {
				vviol("acquire-nil-release", "Acquire returned nil, nil", nil)
			} else {
				r.done()
			}
			vcount("race_waiter_admitted", 1)
		} else {
			vcount("race_waiter_cancelled", 1)
		}
		if nw > max && i == 0 && false {
			_ = got
		}
	}
	for _, c := range cancels {
		c()
	}
	q.mu.Lock()
	a, w := len(q.active), len(q.queued)
	q.mu.Unlock()
	if a != 0 || w != 0 {
		vviol("quiescent-nonempty", fmt.Sprintf("race scenario (order %d): queue has active=%d queued=%d after everybody finished", order, a, w), map[string]any{"max": max, "order": order})
	}
	for k := 0; k < max; k++ {
		d, _ := q.TryAcquire(context.Background(), reqmeta.Data{})
		if d == nil {
			vviol("slot-lost", fmt.Sprintf("race scenario (order %d): only %d of %d slots can be taken afterwards", order, k, max), map[string]any{"max": max, "order": order})
			break
		}
		defer d()
	}
}

// raceScenarioZ is raceScenario for an element type of size zero, which is what regsync (throttle struct{})
// and regbot (struct{}) instantiate the queue with: pointers to such elements are not distinct, so
// nothing in the queue may rely on finding "its own" entry by address.
func raceScenarioZ(rng *rand.Rand, max int, order int, procs int) {
	runtime.GOMAXPROCS(procs)
	defer runtime.GOMAXPROCS(16)
	q := New(Opts[struct{}]{Max: max})
	var rel []func()
	for i := 0; i < max; i++ {
		d, err := q.Acquire(context.Background(), struct{}{})
		if err != nil {
			vviol("acquire-error", err.Error(), nil)
			return
		}
		rel = append(rel, d)
	}
	nw := 2 + rng.Intn(2)
	victim := rng.Intn(nw)
	type wres struct {
		done func()
		err  error
	}
	out := make(chan wres, nw)
	cancels := make([]context.CancelFunc, nw)
	for i := 0; i < nw; i++ {
		ctx, cancel := context.WithCancel(context.Background())
		cancels[i] = cancel
		go func() {
			d, err := q.Acquire(ctx, struct{}{})
			out <- wres{d, err}
		}()
	}
	// wait (on state, not time) until all waiters are parked
	for spins := 0; ; spins++ {
		q.mu.Lock()
		n := len(q.queued)
		q.mu.Unlock()
		if n == nw {
			break
		}
		runtime.Gosched()
		if spins > 50_000_000 {
			vmu.Lock()
			vres.Inconclusive = append(vres.Inconclusive, "waiters never parked")
			vmu.Unlock()
			return
		}
	}
	switch order {
	case 0: // cancel then release, back to back
		cancels[victim]()
		rel[0]()
	case 1: // release then cancel
		rel[0]()
		cancels[victim]()
	case 2: // from two goroutines released together
		var sw sync.WaitGroup
		start := make(chan struct{})
		sw.Add(2)
		go func() { defer sw.Done(); <-start; cancels[victim]() }()
		go func() { defer sw.Done(); <-start; rel[0]() }()
		close(start)
		sw.Wait()
	}
	rel = rel[1:]
	// remaining holders release; remaining waiters are cancelled only after that, so that each of
	// them must have been admitted: holders released = max, waiters = nw <= 3; with max < nw-1 the later ones are admitted as the earlier ones release
	for _, d := range rel {
		d()
	}
	got := 0
	for i := 0; i < nw; i++ {
		var r wres
		select {
		case r = <-out:
		case <-time.After(20 * time.Second):
			// decide on state: a waiter is queued although slots are free and nobody holds any
			q.mu.Lock()
			a, w := len(q.active), len(q.queued)
			q.mu.Unlock()
			if w > 0 && a < max {
				vviol("zero-size/lost-wakeup", fmt.Sprintf("waiter still queued after all holders released (active=%d queued=%d max=%d, order=%d)", a, w, max, order), map[string]any{"max": max, "order": order, "waiters": nw})
			} else if w == 0 {
				// the goroutine is inside Acquire, its context is live, and the queue's own books list no waiter:
				// nothing can ever wake it
				vviol("zero-size/waiter-dropped", fmt.Sprintf("a waiter whose context was never cancelled is still blocked in Acquire 20 s after all holders released, and the queue lists no waiter (active=%d queued=%d max=%d, order=%d): another waiter's cancellation removed its entry", a, w, max, order), map[string]any{"max": max, "order": order, "waiters": nw})
			} else {
				vmu.Lock()
				vres.Inconclusive = append(vres.Inconclusive, "race scenario watchdog")
				vmu.Unlock()
			}
			return
		}
		if r.err != nil && r.done != nil {
			vviol("cancelled-acquire-returned-release", "Acquire returned both an error and a release function", nil)
		}
		if r.err == nil {
			got++
			if r.done == nil {
				vviol("acquire-nil-release", "Acquire returned nil, nil", nil)
			} else {
				r.done()
			}
			vcount("zero_size_waiter_admitted", 1)
		} else {
			vcount("zero_size_waiter_cancelled", 1)
		}
		if nw > max && i == 0 && false {
			_ = got
		}
	}
	for _, c := range cancels {
		c()
	}
	q.mu.Lock()
	a, w := len(q.active), len(q.queued)
	q.mu.Unlock()
	if a != 0 || w != 0 {
		vviol("zero-size/quiescent-nonempty", fmt.Sprintf("race scenario (order %d): queue has active=%d queued=%d after everybody finished", order, a, w), map[string]any{"max": max, "order": order})
	}
	for k := 0; k < max; k++ {
		d, _ := q.TryAcquire(context.Background(), struct{}{})
		if d == nil {
			vviol("zero-size/slot-lost", fmt.Sprintf("race scenario (order %d): only %d of %d slots can be taken afterwards", order, k, max), map[string]any{"max": max, "order": order})
			break
		}
		defer d()
	}
}

func TestVerifC17(t *testing.T) {
	out := os.Getenv("VERIF_OUT")
	if out == "" {
		t.Skip("VERIF_OUT not set")
	}
	seed, _ := strconv.ParseInt(os.Getenv("VERIF_SEED"), 10, 64)
	n := 12000
	nr := 18000
	if os.Getenv("VERIF_TIER") == "thorough" {
		n, nr = 200000, 300000
	}
	rng := rand.New(rand.NewSource(seed*7919 + 17))
	for i := 0; i < n; i++ {
		s := genScenario(rng)
		runScenario(s, i%4 == 0)
		vres.Evaluations++
		vmu.Lock()
		vdist[s.key()] = true
		if i < 3 {
			vres.Samples = append(vres.Samples, s)
		}
		vmu.Unlock()
		if len(vres.Violations) >= 50 {
			break
		}
	}
	for i := 0; i < nr; i++ {
		max := 1 + rng.Intn(3)
		order := i % 3
		procs := []int{1, 2, 4, 16}[rng.Intn(4)]
		sn := rng.Intn(2) == 0
		raceScenario(rng, max, order, procs, sn)
		vres.Evaluations++
		vmu.Lock()
		vdist[fmt.Sprintf("race/max%d/order%d/procs%d/next%t", max, order, procs, sn)] = true
		vmu.Unlock()
		if len(vres.Violations) >= 50 {
			break
		}
	}
	for i := 0; i < nr/6; i++ {
		max := 1 + rng.Intn(3)
		order := i % 3
		procs := []int{1, 2, 4, 16}[rng.Intn(4)]
		raceScenarioZ(rng, max, order, procs)
		vres.Evaluations++
		vmu.Lock()
		vdist[fmt.Sprintf("race-zero-size/max%d/order%d/procs%d", max, order, procs)] = true
		vmu.Unlock()
		if len(vres.Violations) >= 3 {
			break
		}
	}
	vres.Samples = append(vres.Samples, map[string]any{"race": "max holders acquire; 1-2 waiters park; cancel(waiter0) and release(holder0) in order 0=cancel,release 1=release,cancel 2=two goroutines; then all release; monitors: no waiter left, every slot can be retaken"})
	for k := range vdist {
		vres.Distinct = append(vres.Distinct, k)
	}
	b, _ := json.MarshalIndent(vres, "", " ")
	if err := os.WriteFile(out, b, 0o644); err != nil {
		t.Fatal(err)
	}
}
